//go:build verif

package t2s

import (
	"fmt"
	"sync"

	"github.com/cocosip/go-dicom-codecs/jpeg2000/t2"
	. "verif/harness/vhlib"
)

// ---------------------------------------------------------------------------------------
// t2:codes — number of passes, comma code, Lblock length coding

type lenCase struct {
	Nlb, DataLen, Prev, Np int
	TermAll                bool
	PassLens               []int
	Nil                    bool
	Terms                  []bool
	Kind                   string
}

func genLenCase(r *Rand, i int) lenCase {
	k := lenCase{Nlb: r.Range(0, 12), Np: r.Range(1, 12), TermAll: r.Intn(3) == 0, Nil: true}
	switch r.Intn(6) {
	case 0:
		k.Np = r.Range(1, 164)
	case 1:
		k.Np = r.Pick(1, 2, 3, 4, 7, 8, 15, 16, 31, 32, 63, 64, 127, 128, 164)
	}
	if r.Intn(40) == 0 {
		k.Np = r.Pick(0, -1, -3)
	}
	if r.Intn(30) == 0 {
		k.Nlb = r.Pick(-2, -1, 0, 13, 20)
	}
	switch r.Intn(5) {
	case 0:
		e := r.Range(0, 16)
		k.DataLen = (1 << uint(e)) + r.Pick(-1, 0, 1)
		if k.DataLen < 0 {
			k.DataLen = 0
		}
	case 1:
		k.DataLen = r.Range(0, 70000)
	case 2:
		k.DataLen = r.Range(0, 20)
	default:
		k.DataLen = r.Range(0, 3000)
	}
	if r.Intn(60) == 0 {
		k.DataLen = -r.Range(1, 300)
	}
	k.Prev = r.Pick(0, 0, 0, 1, 2, 5, 17)
	k.Kind = "nil"
	switch i % 4 {
	case 1: // long enough, sums to DataLen where possible, zeros frequent
		k.Kind = "passlens"
		k.Nil = false
		total := k.Prev + max(k.Np, 0) + r.Range(0, 3)
		k.PassLens = make([]int, total)
		rem := max(k.DataLen, 0)
		last := k.Prev + max(k.Np, 1) - 1
		for j := k.Prev; j <= last && j < total; j++ {
			v := 0
			if j == last {
				v = rem
			} else if r.Intn(3) != 0 && rem > 0 {
				v = r.Intn(rem + 1)
				if r.Bool() {
					v = r.Intn(min(rem, 40) + 1)
				}
			}
			k.PassLens[j] = v
			rem -= v
		}
		for j := 0; j < k.Prev; j++ {
			k.PassLens[j] = r.Range(0, 50)
		}
	case 2: // too short -> single-segment fallback; or empty non-nil
		k.Kind = "passlens_short"
		k.Nil = false
		n := r.Intn(k.Prev + max(k.Np, 0) + 1)
		k.PassLens = make([]int, n)
		for j := range k.PassLens {
			k.PassLens[j] = r.Range(0, 100)
		}
	case 3: // arbitrary lengths (not summing to DataLen), negative prev occasionally
		k.Kind = "passlens_any"
		k.Nil = false
		k.PassLens = make([]int, k.Prev+max(k.Np, 0)+r.Range(0, 2))
		for j := range k.PassLens {
			k.PassLens[j] = r.Pick(0, 0, 1, 7, 8, 255, 256, 4095, 4096, 70000, r.Range(0, 1000))
		}
		if r.Intn(25) == 0 {
			k.Prev = -r.Range(1, 3)
		}
	}
	// Passes[i].Terminated flags: none / some in the middle / all
	nt := k.Prev + max(k.Np, 0) + r.Range(-2, 2)
	switch r.Intn(4) {
	case 0:
		nt = 0
	}
	for j := 0; j < nt; j++ {
		k.Terms = append(k.Terms, r.Intn(3) == 0)
	}
	return k
}

func lenEncStr(k lenCase) string {
	var out []byte
	var nlb int
	pl := k.PassLens
	if k.Nil {
		pl = nil
	} else if pl == nil {
		pl = []int{}
	}
	if p, _ := Safely(func() { out, nlb = t2.VerifEncodeLengths(k.Nlb, k.DataLen, k.Prev, k.Np, k.TermAll, pl, k.Terms) }); p {
		return "panic"
	}
	return fmt.Sprintf("ok:%s|%d", Hex(out), nlb)
}

func lenDecStr(data []byte, np, nlb int, termAll bool) string {
	total, pls, newNlb, pos, failed := t2.VerifDecodeLengths(data, np, nlb, termAll)
	if failed {
		return "err"
	}
	return fmt.Sprintf("ok:%d|%s|%d|%d", total, Ints(pls), newNlb, pos)
}

func suiteCodes(c *Ctx) {
	rng := c.Rng.Fork()
	// ---- number of passes: the whole encoder domain of interest
	for n := -3; n <= 200; n++ {
		out, failed := t2.VerifEncodeNumPasses(n)
		impl := "ok:" + Hex(out)
		if failed {
			impl = "err"
		}
		c.R.Case(fmt.Sprintf("np_enc:%d", n), n >= 2, "codes.np_enc")
		c.CorrEq("t2:codes:np_enc", "t2:codes:np_enc", c.M.Call("t2_np_enc", fmt.Sprint(n)), impl, n)
		if n >= 1 && n <= 164 {
			c.R.Oracle("t2:codes:rt")
			got, pos, f2 := t2.VerifDecodeNumPasses(out)
			if f2 || got != n || pos > len(out) {
				c.R.Fail("oracle", "t2:codes:rt", "t2:codes:rt:numpasses", fmt.Sprintf("numpasses %d encoded %s decoded %d (failed %v, bytesRead %d)", n, Hex(out), got, f2, pos), n)
			}
		}
	}
	// decoder: 16-bit patterns (all of them in the thorough tier), also truncated to one byte
	var pats []int
	if c.Thor {
		for p := 0; p < 65536; p++ {
			pats = append(pats, p)
		}
	} else {
		for p := 0; p < 65536; p += 37 {
			pats = append(pats, p)
		}
		// every prefix class boundary
		for _, p := range []int{0x0000, 0x7FFF, 0x8000, 0xBFFF, 0xC000, 0xEFFF, 0xF000, 0xF07F, 0xFF7F, 0xFF80, 0xFFFF, 0xFF00, 0xFEFF, 0xF7FF, 0xF780} {
			pats = append(pats, p)
		}
	}
	ParallelFor(len(pats), c.Work, func(i int) {
		p := pats[i]
		for _, d := range [][]byte{{byte(p >> 8), byte(p), 0x00}, {byte(p >> 8), byte(p)}, {byte(p >> 8)}} {
			if len(d) < 3 && i%8 != 0 && !c.Thor {
				continue
			}
			n, pos, failed := t2.VerifDecodeNumPasses(d)
			impl := fmt.Sprintf("ok:%d,%d", n, pos)
			if failed {
				impl = "err"
			}
			c.R.Case("np_dec:"+Hex(d), true, "codes.np_dec")
			c.CorrEq("t2:codes:np_dec", "t2:codes:np_dec", c.M.Call("t2_np_dec", Hex(d)), impl, Hex(d))
		}
	})
	// ---- comma code
	for n := 0; n <= 40; n++ {
		out := t2.VerifCommaEncode(n)
		c.R.Case(fmt.Sprintf("comma:%d", n), n >= 2, "codes.comma")
		c.CorrEq("t2:codes:comma_enc", "t2:codes:comma_enc", c.M.Call("t2_comma_enc", fmt.Sprint(n)), Hex(out), n)
		for _, d := range [][]byte{out, out[:len(out)-1], append([]byte{0xFF}, out...)} {
			got, pos, failed := t2.VerifCommaDecode(d)
			impl := fmt.Sprintf("ok:%d,%d", got, pos)
			if failed {
				impl = "err"
			}
			c.CorrEq("t2:codes:comma_dec", "t2:codes:comma_dec", c.M.Call("t2_comma_dec", Hex(d)), impl, Hex(d))
		}
		c.R.Oracle("t2:codes:rt")
		if got, _, failed := t2.VerifCommaDecode(out); failed || got != n {
			c.R.Fail("oracle", "t2:codes:rt", "t2:codes:rt:comma", fmt.Sprintf("comma %d decoded %d (failed %v)", n, got, failed), n)
		}
	}
	for i := 0; i < c.N(300, 5000); i++ {
		d := noise(rng, rng.Range(0, 5))
		got, pos, failed := t2.VerifCommaDecode(d)
		impl := fmt.Sprintf("ok:%d,%d", got, pos)
		if failed {
			impl = "err"
		}
		c.CorrEq("t2:codes:comma_dec", "t2:codes:comma_dec", c.M.Call("t2_comma_dec", Hex(d)), impl, Hex(d))
	}
	// ---- lengths
	n := c.N(3500, 60000)
	cases := make([]lenCase, n)
	seeds := make([]uint64, n)
	for i := range cases {
		cases[i] = genLenCase(rng, i)
		seeds[i] = rng.U64()
	}
	var midOnce sync.Once
	ParallelFor(n, c.Work, func(i int) {
		k := cases[i]
		r := NewRand(seeds[i])
		plArg := "nil"
		if !k.Nil {
			plArg = Ints(k.PassLens)
		}
		key := fmt.Sprintf("len:%d:%d:%d:%d:%v:%s:%s", k.Nlb, k.DataLen, k.Prev, k.Np, k.TermAll, plArg, bools01(k.Terms))
		midTerm := false
		for j := k.Prev; j >= 0 && j < k.Prev+k.Np-1 && j < len(k.Terms); j++ {
			midTerm = midTerm || k.Terms[j]
		}
		dist := []string{"codes.len." + k.Kind, fmt.Sprintf("codes.len.termall.%v", k.TermAll)}
		if midTerm {
			dist = append(dist, "codes.len.mid_terminated")
		}
		c.R.Case(key, k.Np >= 2 || k.DataLen >= 8, dist...)
		if i < 2 {
			c.R.Sample(map[string]interface{}{"suite": "t2:codes:len", "case": k})
		}
		impl := lenEncStr(k)
		c.CorrEq("t2:codes:len_enc", "t2:codes:len_enc:"+k.Kind, c.M.Call("t2_len_enc", fmt.Sprint(k.Nlb), fmt.Sprint(k.DataLen), fmt.Sprint(k.Prev),
			fmt.Sprint(k.Np), b01(k.TermAll), plArg, bools01(k.Terms)), impl, k)
		// decoder on the encoder's output (with a random tail) and on random bytes
		var enc []byte
		if impl != "panic" {
			var s string
			fmt.Sscanf(impl, "ok:%s", &s)
			enc = UnHex(s[:indexByte(s, '|')])
		}
		for v := 0; v < 2; v++ {
			d := append(append([]byte{}, enc...), noise(r, r.Range(0, 3))...)
			np, nlb, ta := k.Np, k.Nlb, k.TermAll
			if v == 1 {
				d = noise(r, r.Range(0, 8))
				if r.Intn(3) == 0 {
					np, nlb, ta = r.Range(-1, 170), r.Range(-1, 34), r.Bool()
				}
			}
			c.CorrEq("t2:codes:len_dec", "t2:codes:len_dec", c.M.Call("t2_len_dec", Hex(d), fmt.Sprint(np), fmt.Sprint(nlb), b01(ta)), lenDecStr(d, np, nlb, ta),
				map[string]interface{}{"data": Hex(d), "np": np, "nlb": nlb, "termAll": ta})
		}
		// oracle (Go alone): decode(encode) for the single-segment and the TERMALL variants
		if k.Np >= 1 && k.Np <= 164 && k.DataLen >= 0 && k.Prev >= 0 && impl != "panic" {
			var encNlb int
			fmt.Sscanf(impl[indexByte(impl, '|')+1:], "%d", &encNlb)
			perSeg := !k.Nil && k.Prev+k.Np <= len(k.PassLens)
			switch {
			case !perSeg: // one segment of dataLen
				c.R.Oracle("t2:codes:rt")
				total, pls, nlb, _, failed := t2.VerifDecodeLengths(enc, k.Np, k.Nlb, false)
				if failed || total != k.DataLen || len(pls) != 0 || nlb != encNlb {
					c.R.Fail("oracle", "t2:codes:rt", "t2:codes:rt:single", fmt.Sprintf("decoded total %d nlb %d (failed %v), encoder dataLen %d nlb %d", total, nlb, failed, k.DataLen, encNlb), k)
				}
			case k.TermAll: // one segment per pass
				c.R.Oracle("t2:codes:rt")
				total, pls, nlb, _, failed := t2.VerifDecodeLengths(enc, k.Np, k.Nlb, true)
				want := k.PassLens[k.Prev : k.Prev+k.Np]
				sum := 0
				for _, v := range want {
					sum += v
				}
				if failed || Ints(pls) != Ints(want) || total != sum || nlb != encNlb {
					c.R.Fail("oracle", "t2:codes:rt", "t2:codes:rt:termall", fmt.Sprintf("decoded %v total %d nlb %d (failed %v), encoder %v nlb %d", pls, total, nlb, failed, want, encNlb), k)
				}
			case !midTerm: // per-pass lengths present, no termination inside: one segment, the sum
				c.R.Oracle("t2:codes:rt")
				sum := 0
				for _, v := range k.PassLens[k.Prev : k.Prev+k.Np] {
					sum += v
				}
				total, _, nlb, _, failed := t2.VerifDecodeLengths(enc, k.Np, k.Nlb, false)
				if failed || total != sum || nlb != encNlb {
					c.R.Fail("oracle", "t2:codes:rt", "t2:codes:rt:single_pl", fmt.Sprintf("decoded total %d nlb %d (failed %v), encoder segment %d nlb %d", total, nlb, failed, sum, encNlb), k)
				}
			default: // terminated pass in the middle without TERMALL: recorded, not a failure
				sum := 0
				for _, v := range k.PassLens[k.Prev : k.Prev+k.Np] {
					sum += v
				}
				total, _, nlb, pos, failed := t2.VerifDecodeLengths(enc, k.Np, k.Nlb, false)
				if failed || total != sum || nlb != encNlb {
					c.R.Count("codes.len.mid_terminated_no_roundtrip")
					midOnce.Do(func() {
						c.R.Note("t2:codes: a pass with Terminated=true in the middle of a layer without TERMALL makes encodeCodeBlockLengths write several segment lengths while decodeDataLengthWithReader(termAll=false) reads one: e.g. %+v encodes %s; decoder returns total %d (sum %d), NumLenBits %d (encoder %d), bytesRead %d, failed %v", k, Hex(enc), total, sum, nlb, encNlb, pos, failed)
					})
				} else {
					c.R.Count("codes.len.mid_terminated_roundtrip_ok")
				}
			}
		}
	})
}

func indexByte(s string, b byte) int {
	for i := 0; i < len(s); i++ {
		if s[i] == b {
			return i
		}
	}
	return len(s)
}
