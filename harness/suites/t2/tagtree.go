//go:build verif

package t2s

import (
	"fmt"
	"strings"

	"github.com/cocosip/go-dicom-codecs/jpeg2000/t2"
	. "verif/harness/vhlib"
)

// ---------------------------------------------------------------------------------------
// t2:tagtree — TagTree SetValue / ResetEncoding / Encode / Decode

type ttOp struct{ K, X, Y, V int } // K: 0 SetValue(x,y,v), 1 Encode(x,y,threshold v), 2 ResetEncoding

func ttOpsStr(ops []ttOp) string {
	parts := make([]string, len(ops))
	for i, o := range ops {
		if o.K == 2 {
			parts[i] = "2"
		} else {
			parts[i] = fmt.Sprintf("%d,%d,%d,%d", o.K, o.X, o.Y, o.V)
		}
	}
	return joinOr(parts, ";", "_")
}

func ttLeaves(tt *t2.TagTree) string {
	var vs []int
	for y := 0; y < tt.Height(); y++ {
		for x := 0; x < tt.Width(); x++ {
			vs = append(vs, tt.GetValue(x, y))
		}
	}
	return Ints(vs)
}

// runTTEnc drives a Go TagTree with the ops; result in the format of the op t2_tt_enc.
func runTTEnc(w, h int, ops []ttOp) (string, []int) {
	var res string
	sink := &bitSink{}
	if p, _ := Safely(func() {
		tt := t2.NewTagTree(w, h)
		for _, o := range ops {
			switch o.K {
			case 0:
				tt.SetValue(o.X, o.Y, o.V)
			case 1:
				if err := tt.Encode(sink, o.X, o.Y, o.V); err != nil {
					res = "err"
					return
				}
			default:
				tt.ResetEncoding()
			}
		}
		res = fmt.Sprintf("ok:%s|%s", bitsStr(sink.bits), ttLeaves(tt))
	}); p {
		return "panic", nil
	}
	return res, sink.bits
}

func qStr(qs [][3]int) string {
	parts := make([]string, len(qs))
	for i, q := range qs {
		parts[i] = fmt.Sprintf("%d,%d,%d", q[0], q[1], q[2])
	}
	return joinOr(parts, ";", "_")
}

// runTTDec drives Decode from a plain bit list; result in the format of t2_tt_dec.
func runTTDec(w, h int, bits []int, qs [][3]int) (string, int) {
	var res string
	src := &bitSource{bits: bits, zeroPad: true}
	if p, _ := Safely(func() {
		tt := t2.NewTagTree(w, h)
		var vals []int
		for _, q := range qs {
			v, err := tt.Decode(src, q[0], q[1], q[2])
			if err != nil {
				res = "err"
				return
			}
			vals = append(vals, v)
		}
		res = fmt.Sprintf("ok:%s|%s", Ints(vals), ttLeaves(tt))
	}); p {
		return "panic", src.pos
	}
	return res, src.pos
}

type ttCase struct {
	W, H  int
	Kind  string
	Ops   []ttOp
	First []int // discipline: first inclusion layer per leaf (row-major), L = never
	Zbp   []int
	L     int
}

func ttDims(r *Rand, i int) (int, int) {
	switch i % 16 {
	case 0:
		return 1, 1
	case 1:
		return 1, r.Range(2, 12)
	case 2:
		return r.Range(2, 12), 1
	case 3:
		return r.Range(10, 40), r.Range(1, 6)
	case 4:
		return r.Range(1, 6), r.Range(10, 40)
	case 5:
		return r.Pick(2, 3, 4, 5, 8, 9, 16, 17), r.Pick(2, 3, 4, 5, 8, 9)
	}
	return r.Range(1, 9), r.Range(1, 9)
}

func genTTCase(r *Rand, i int) ttCase {
	w, h := ttDims(r, i)
	k := ttCase{W: w, H: h}
	switch i % 5 {
	case 0, 1: // packet discipline, inclusion tree
		k.Kind = "incl_discipline"
		k.L = r.Range(1, 8)
		if r.Intn(10) == 0 {
			k.L = r.Range(9, 40)
		}
		if i%100 == 10 { // inclusion layers around and above the 999 placeholder
			k.W, k.H = r.Range(1, 2), r.Range(1, 2)
			w, h = k.W, k.H
			k.L = r.Pick(999, 1000, 1001, 1002, 1100)
		}
		late := r.Intn(3) == 0
		for j := 0; j < w*h; j++ {
			f := r.Range(0, k.L)
			if late && r.Intn(2) == 0 {
				f = k.L - r.Intn(2)
			}
			if r.Intn(4) == 0 {
				f = 0
			}
			if k.L >= 999 && r.Bool() {
				f = r.Range(996, k.L)
			}
			k.First = append(k.First, f)
		}
		inc := make([]bool, w*h)
		for l := 0; l < k.L; l++ {
			if l == 0 {
				k.Ops = append(k.Ops, ttOp{K: 2})
			}
			for j := range inc {
				if !inc[j] && k.First[j] == l {
					k.Ops = append(k.Ops, ttOp{0, j % w, j / w, l})
				}
			}
			for j := range inc {
				if !inc[j] {
					k.Ops = append(k.Ops, ttOp{1, j % w, j / w, l + 1})
					if k.First[j] == l {
						inc[j] = true
					}
				}
			}
		}
	case 2: // ZBP pattern: all SetValue first, then Encode(999) in some order
		k.Kind = "zbp_discipline"
		k.Ops = append(k.Ops, ttOp{K: 2})
		for j := 0; j < w*h; j++ {
			z := r.Range(0, 31)
			if r.Intn(5) == 0 {
				z = r.Pick(0, 31, 30, 1)
			}
			k.Zbp = append(k.Zbp, z)
			k.Ops = append(k.Ops, ttOp{0, j % w, j / w, z})
		}
		// encode order: a random permutation prefix
		perm := make([]int, w*h)
		for j := range perm {
			perm[j] = j
		}
		for j := len(perm) - 1; j > 0; j-- {
			q := r.Intn(j + 1)
			perm[j], perm[q] = perm[q], perm[j]
		}
		for _, j := range perm[:r.Range(1, len(perm))] {
			k.Ops = append(k.Ops, ttOp{1, j % w, j / w, 999})
		}
	default: // arbitrary schedules
		k.Kind = "arbitrary"
		if r.Intn(20) == 0 {
			k.W, k.H = r.Pick(0, -1, w), r.Pick(0, -2, h)
			w, h = k.W, k.H
		}
		for n := r.Range(1, 30); n > 0; n-- {
			x, y := r.Intn(max(w, 1)), r.Intn(max(h, 1))
			if r.Intn(25) == 0 {
				x, y = r.Pick(-1, w, w+3, x), r.Pick(-1, h, h+1, y)
			}
			switch r.Intn(10) {
			case 0:
				k.Ops = append(k.Ops, ttOp{K: 2})
			case 1, 2, 3, 4:
				v := r.Range(0, 12)
				switch r.Intn(8) {
				case 0:
					v = r.Pick(998, 999, 1000, 1500, 5000)
				case 1:
					v = r.Pick(-1, -7, 0)
				}
				k.Ops = append(k.Ops, ttOp{0, x, y, v})
			default:
				t := r.Range(0, 14)
				switch r.Intn(10) {
				case 0:
					t = r.Pick(998, 999, 1000, 1001, 2500)
				case 1:
					t = r.Pick(-1, 0, 1)
				}
				k.Ops = append(k.Ops, ttOp{1, x, y, t})
			}
		}
	}
	return k
}

func suiteTagTree(c *Ctx) {
	rng := c.Rng.Fork()
	n := c.N(2000, 30000)
	cases := make([]ttCase, n)
	seeds := make([]uint64, n)
	for i := range cases {
		cases[i] = genTTCase(rng, i)
		seeds[i] = rng.U64()
	}
	ParallelFor(n, c.Work, func(i int) {
		k := cases[i]
		r := NewRand(seeds[i])
		ops := ttOpsStr(k.Ops)
		key := fmt.Sprintf("tt:%d:%d:%s", k.W, k.H, ops)
		dist := []string{"tt.kind." + k.Kind, fmt.Sprintf("tt.leaves.%s", sizeClass(k.W*k.H))}
		if k.Kind == "incl_discipline" {
			for _, f := range k.First {
				if f >= 2 {
					dist = append(dist, "late_inclusion")
					break
				}
			}
			if k.L >= 999 {
				dist = append(dist, "tt.layers_ge_999")
			}
		}
		c.R.Case(key, k.W*k.H >= 2 && len(k.Ops) >= 2, dist...)
		if i < 2 {
			c.R.Sample(map[string]interface{}{"suite": "t2:tagtree", "w": k.W, "h": k.H, "ops": ops})
		}
		in := map[string]interface{}{"w": k.W, "h": k.H, "ops": ops}
		impl, bits := runTTEnc(k.W, k.H, k.Ops)
		c.CorrEq("t2:tagtree:enc", "t2:tagtree:enc:"+k.Kind, c.M.Call("t2_tt_enc", fmt.Sprint(k.W), fmt.Sprint(k.H), ops), impl, in)

		// decoder on the encoder's bits with the encoder's queries (discipline) or on random bits
		var qs [][3]int
		dbits := bits
		if k.Kind == "arbitrary" || r.Intn(4) == 0 {
			dbits = make([]int, r.Range(0, 60))
			p1 := r.Pick(2, 3, 5)
			for j := range dbits {
				if r.Intn(p1) == 0 {
					dbits[j] = 1
				}
			}
			for m := r.Range(1, 12); m > 0; m-- {
				x, y := r.Intn(max(k.W, 1)), r.Intn(max(k.H, 1))
				t := r.Range(0, 12)
				switch r.Intn(12) {
				case 0:
					t = r.Pick(32, 999, 1000, 1100)
				case 1:
					x, y = r.Pick(-1, k.W, x), r.Pick(-1, k.H, y)
				}
				qs = append(qs, [3]int{x, y, t})
			}
		} else {
			for _, o := range k.Ops {
				if o.K == 1 {
					t := o.V
					if k.Kind == "zbp_discipline" {
						t = 32 // DecodeZeroBitPlanes
					}
					qs = append(qs, [3]int{o.X, o.Y, t})
				}
			}
		}
		// the Go side reads zero bits past the end of the list; the model gets the list
		// padded with zeros to the number of bits Go consumed (its reader then still has the
		// flush padding and four 00 bytes, so it cannot run out before it disagrees)
		dimpl, consumed := runTTDec(k.W, k.H, dbits, qs)
		if consumed > len(dbits) {
			dbits = append(append([]int{}, dbits...), make([]int, consumed-len(dbits))...)
			c.R.Count("tt.dec.zero_padded")
		}
		din := map[string]interface{}{"w": k.W, "h": k.H, "bits": bitsStr(dbits), "queries": qStr(qs)}
		c.CorrEq("t2:tagtree:dec", "t2:tagtree:dec:"+k.Kind, c.M.Call("t2_tt_dec", fmt.Sprint(k.W), fmt.Sprint(k.H), bitsStr(dbits), qStr(qs)), dimpl, din)

		// truncated / random bytes through a real bioReader: ok/err class and values
		data := noise(r, r.Range(0, 6))
		if len(bits) > 0 && r.Bool() {
			data = t2.VerifBioWrite(bitPairs(bits))
			data = data[:r.Intn(len(data)+1)]
		}
		vals, failed := t2.VerifTagTreeDecode(k.W, k.H, data, qs)
		bimpl := "ok:" + Ints(vals)
		if failed {
			bimpl = "err"
		}
		c.CorrEq("t2:tagtree:decb", "t2:tagtree:decb", c.M.Call("t2_tt_decb", fmt.Sprint(k.W), fmt.Sprint(k.H), Hex(data), qStr(qs)), bimpl,
			map[string]interface{}{"w": k.W, "h": k.H, "data": Hex(data), "queries": qStr(qs)})

		// oracle on Go alone: packet discipline, inclusion and ZBP trees interleaved as in a header
		if k.Kind == "incl_discipline" {
			c.R.Oracle("t2:tagtree:rt")
			if bad := ttRoundTrip(r, k); bad != "" {
				c.R.Fail("oracle", "t2:tagtree:rt", "t2:tagtree:rt:"+strings.SplitN(bad, ":", 2)[0], bad, map[string]interface{}{"w": k.W, "h": k.H, "L": k.L, "first": k.First})
			}
		}
	})
}

func sizeClass(n int) string {
	switch {
	case n <= 1:
		return "1"
	case n <= 4:
		return "2-4"
	case n <= 16:
		return "5-16"
	case n <= 81:
		return "17-81"
	}
	return ">81"
}

func bitPairs(bits []int) [][2]int {
	out := make([][2]int, len(bits))
	for i, b := range bits {
		out[i] = [2]int{b, 1}
	}
	return out
}

// ttRoundTrip: encoder schedule of a packet header (inclusion threshold layer+1, ZBP
// threshold 999 at first inclusion) against DecodeInclusion / DecodeZeroBitPlanes.
func ttRoundTrip(r *Rand, k ttCase) string {
	w, h := k.W, k.H
	zbp := make([]int, w*h)
	for j := range zbp {
		zbp[j] = r.Range(0, 31)
	}
	it, zt := t2.NewTagTree(w, h), t2.NewTagTree(w, h)
	sink := &bitSink{}
	inc := make([]bool, w*h)
	for l := 0; l < k.L; l++ {
		if l == 0 {
			it.ResetEncoding()
			zt.ResetEncoding()
			for j := range zbp {
				zt.SetValue(j%w, j/w, zbp[j])
			}
		}
		for j := range inc {
			if !inc[j] && k.First[j] == l {
				it.SetValue(j%w, j/w, l)
			}
		}
		for j := range inc {
			if inc[j] {
				continue
			}
			if err := it.Encode(sink, j%w, j/w, l+1); err != nil {
				return "encode: " + err.Error()
			}
			if k.First[j] == l {
				if err := zt.Encode(sink, j%w, j/w, 999); err != nil {
					return "encode: " + err.Error()
				}
				inc[j] = true
			}
		}
	}
	src := &bitSource{bits: sink.bits}
	rb := func() (int, error) { return src.ReadBit() }
	it2, zt2 := t2.NewTagTree(w, h), t2.NewTagTree(w, h)
	inc = make([]bool, w*h)
	for l := 0; l < k.L; l++ {
		for j := range inc {
			if inc[j] {
				continue
			}
			got, first, err := it2.DecodeInclusion(j%w, j/w, l, rb)
			if err != nil {
				return fmt.Sprintf("inclusion: layer %d leaf %d: %v", l, j, err)
			}
			want := k.First[j] == l
			if got != want || (got && first != l) {
				return fmt.Sprintf("inclusion: layer %d leaf %d: decoded (%v,%d), encoder first layer %d", l, j, got, first, k.First[j])
			}
			// Decode proper: value when value < threshold else 999
			if v := it2.GetValue(j%w, j/w); (want && v != l) || (!want && v != 999) {
				return fmt.Sprintf("value: layer %d leaf %d: node %d after Decode with threshold %d, value %d", l, j, v, l+1, k.First[j])
			}
			if got {
				z, err := zt2.DecodeZeroBitPlanes(j%w, j/w, rb)
				if err != nil {
					return fmt.Sprintf("zbp: layer %d leaf %d: %v", l, j, err)
				}
				if z != zbp[j] {
					return fmt.Sprintf("zbp: layer %d leaf %d: decoded %d, encoder %d", l, j, z, zbp[j])
				}
				inc[j] = true
			}
		}
	}
	if src.pos != len(sink.bits) {
		return fmt.Sprintf("bits: decoder consumed %d of %d bits", src.pos, len(sink.bits))
	}
	return ""
}
