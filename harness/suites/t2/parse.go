//go:build verif

package t2s

import (
	"encoding/json"
	"fmt"
	"strconv"
	"strings"

	"github.com/cocosip/go-dicom-codecs/jpeg2000/t2"
	. "verif/harness/vhlib"
)

// ---------------------------------------------------------------------------------------
// C08 t2:parse — parsePacketHeaderMulti on garbage, with arbitrary persistent state

type treePreset struct {
	W, H     int
	InclData []byte
	InclQ    [][3]int
	ZbpData  []byte
	ZbpQ     [][3]int
}

type parseStep struct {
	Layer   int
	TermAll bool
	Data    []byte
}

type parseCase struct {
	Dims      [][2]int
	Positions [][][2]int
	States    [][]t2.VerifCBState // per band, nil = no preset
	HasStates []bool
	Trees     []*treePreset
	Steps     []parseStep
	Kind      string
}

func dotQ(qs [][3]int) string {
	parts := make([]string, len(qs))
	for i, q := range qs {
		parts[i] = fmt.Sprintf("%d.%d.%d", q[0], q[1], q[2])
	}
	return joinOr(parts, "+", "_")
}

func (k *parseCase) presetsArg() string {
	parts := make([]string, len(k.Dims))
	for i := range k.Dims {
		var ps []string
		if k.HasStates[i] {
			sl := make([]string, len(k.States[i]))
			for j, s := range k.States[i] {
				sl[j] = fmt.Sprintf("%s,%d,%d,%d,%d", b01(s.Included), s.FirstLayer, s.ZeroBitPlanes, s.NumPassesTotal, s.NumLenBits)
			}
			ps = append(ps, "S="+joinOr(sl, ";", "_"))
		}
		if t := k.Trees[i]; t != nil {
			ps = append(ps, fmt.Sprintf("T=%d,%d,%s,%s,%s,%s", t.W, t.H, Hex(t.InclData), dotQ(t.InclQ), Hex(t.ZbpData), dotQ(t.ZbpQ)))
		}
		parts[i] = joinOr(ps, "&", "-")
	}
	return joinOr(parts, "|", "_")
}

func (k *parseCase) stepsArg(steps []parseStep) string {
	parts := make([]string, len(steps))
	for i, s := range steps {
		parts[i] = fmt.Sprintf("%d,%s,%s", s.Layer, b01(s.TermAll), Hex(s.Data))
	}
	return joinOr(parts, "#", "_")
}

// run drives the Go parser; the result has the format of the op t2_hdr_dec.
func (k *parseCase) run(steps []parseStep) (impl string, panicMsg string, presetFailed bool) {
	hb := t2.NewVerifHeaderBands(k.Dims, k.Positions)
	for i := range k.Dims {
		if k.HasStates[i] {
			hb.PresetStates(i, k.States[i])
		}
		if t := k.Trees[i]; t != nil {
			var failed bool
			if p, msg := Safely(func() { failed = hb.PresetTrees(i, t.W, t.H, t.InclData, t.InclQ, t.ZbpData, t.ZbpQ) }); p {
				return "panic", "preset: " + msg, true
			}
			if failed {
				return "preset-failed", "", true
			}
		}
	}
	var parts []string
	for _, s := range steps {
		var pos int
		var present bool
		var incls []t2.CodeBlockIncl
		var err error
		if p, msg := Safely(func() { pos, present, incls, err = hb.Parse(s.Data, s.Layer, s.TermAll) }); p {
			parts = append(parts, "panic")
			return strings.Join(parts, "#"), msg, false
		}
		if err != nil {
			parts = append(parts, "err")
			break
		}
		il := make([]string, len(incls))
		for j, ci := range incls {
			il[j] = dInclStr(ci)
		}
		parts = append(parts, fmt.Sprintf("ok:%d,%s|%s|%s", pos, b01(present), joinOr(il, ";", "_"), dStatesStr(hb.States())))
	}
	return joinOr(parts, "#", "_"), "", false
}

func garbageData(r *Rand, n int) []byte {
	switch r.Intn(6) {
	case 0:
		d := make([]byte, n)
		for i := range d {
			d[i] = 0xFF
		}
		return d
	case 1:
		d := make([]byte, n)
		for i := range d {
			d[i] = byte(r.Pick(0x80, 0xC0, 0xFF, 0x00, 0xAA))
		}
		if n > 0 {
			d[0] |= 0x80
		}
		return d
	}
	d := noise(r, n)
	if n > 0 && r.Intn(3) != 0 {
		d[0] |= 0x80 // packet present
	}
	return d
}

func garbageLayer(r *Rand) int {
	switch r.Intn(8) {
	case 0:
		return r.Pick(998, 999, 1000, 1001, 65535, 70000)
	case 1:
		return r.Range(0, 70000)
	}
	return r.Range(0, 8)
}

func genTreePreset(r *Rand, w, h int) *treePreset {
	t := &treePreset{W: w, H: h}
	if r.Intn(4) == 0 {
		t.W, t.H = r.Range(1, 5), r.Range(1, 5) // other dimensions: normalisation replaces the trees
	}
	gen := func() ([]byte, [][3]int) {
		var qs [][3]int
		for m := r.Range(0, 8); m > 0; m-- {
			qs = append(qs, [3]int{r.Intn(max(t.W, 1)), r.Intn(max(t.H, 1)), r.Range(0, 40)})
		}
		return noise(r, 96), qs
	}
	t.InclData, t.InclQ = gen()
	t.ZbpData, t.ZbpQ = gen()
	return t
}

func genParseCase(r *Rand, i int) parseCase {
	k := parseCase{Kind: "garbage"}
	nb := r.Range(1, 3)
	for b := 0; b < nb; b++ {
		w, h := r.Range(1, 5), r.Range(1, 4)
		switch r.Intn(10) {
		case 0:
			w = 0
		case 1:
			h = 0
		case 2:
			w, h = r.Pick(-1, 0, 1), r.Pick(-2, 0, 1)
		case 3:
			w, h = r.Range(6, 20), r.Range(1, 3)
		}
		k.Dims = append(k.Dims, [2]int{w, h})
		var pos [][2]int
		switch r.Intn(4) {
		case 0: // row-major default
		case 1: // explicit valid list
			for y := 0; y < h; y++ {
				for x := 0; x < w; x++ {
					if r.Intn(5) != 0 {
						pos = append(pos, [2]int{x, y})
					}
				}
			}
		default: // arbitrary entries, out-of-grid and repeated ones included
			for m := r.Range(1, 10); m > 0; m-- {
				pos = append(pos, [2]int{r.Range(-1, w+1), r.Range(-1, h+1)})
			}
		}
		k.Positions = append(k.Positions, pos)
		var sts []t2.VerifCBState
		has := false
		if r.Intn(3) == 0 {
			has = true
			n := max(w, 0) * max(h, 0)
			if r.Intn(4) == 0 {
				n = r.Range(0, n+2) // wrong length: replaced by fresh states
			}
			for j := 0; j < n; j++ {
				s := t2.VerifCBState{Included: r.Bool(), FirstLayer: r.Range(-1, 5), ZeroBitPlanes: r.Range(0, 31), NumPassesTotal: r.Range(0, 50), NumLenBits: r.Range(0, 12)}
				if r.Intn(4) == 0 {
					s.NumLenBits = r.Pick(-5, 0, 31, 32, 33, 40, 1<<40)
					s.NumPassesTotal = r.Pick(-1, 0, 1<<60)
					s.ZeroBitPlanes = r.Pick(-1, 32, 999, 1<<40)
				}
				sts = append(sts, s)
			}
		}
		k.States = append(k.States, sts)
		k.HasStates = append(k.HasStates, has)
		var tp *treePreset
		if r.Intn(4) == 0 && w > 0 && h > 0 {
			tp = genTreePreset(r, w, h)
		}
		k.Trees = append(k.Trees, tp)
	}
	ta := r.Bool()
	for m := r.Range(1, 4); m > 0; m-- {
		if r.Intn(5) == 0 {
			ta = !ta
		}
		n := r.Range(0, 24)
		if r.Intn(10) == 0 {
			n = r.Range(25, 400)
		}
		k.Steps = append(k.Steps, parseStep{Layer: garbageLayer(r), TermAll: ta, Data: garbageData(r, n)})
	}
	return k
}

// validParseCase: a precinct with valid headers (from the header generator) whose layers are
// then mutated by the caller.
func validParseCase(r *Rand, i int) (parseCase, bool) {
	h := genHdrCase(r, 1)
	k := parseCase{Kind: "valid"}
	precincts := make([]*t2.Precinct, len(h.Bands))
	for bi := range h.Bands {
		b := &h.Bands[bi]
		precincts[bi] = b.goPrecinct()
		k.Dims = append(k.Dims, [2]int{b.W, b.H})
		var pos [][2]int
		for _, blk := range b.sortedBlocks() {
			pos = append(pos, [2]int{blk.CBX, blk.CBY})
		}
		k.Positions = append(k.Positions, pos)
		k.States = append(k.States, nil)
		k.HasStates = append(k.HasStates, false)
		k.Trees = append(k.Trees, nil)
	}
	for l := 0; l < h.L; l++ {
		hdr, _, err := t2.VerifEncodeHeaderMulti(precincts, l)
		if err != nil {
			return k, false
		}
		k.Steps = append(k.Steps, parseStep{Layer: l, TermAll: h.TermAll, Data: append([]byte{}, hdr...)})
	}
	return k, true
}

func suiteParse(c *Ctx) {
	rng := c.Rng.Fork()
	type job struct {
		k     parseCase
		steps []parseStep
		kind  string
	}
	var jobs []job
	n := c.N(2000, 30000)
	// corpus / replay: the recorded model arguments are parsed back into a case
	replaying := false
	for _, raw := range append(c.CorpusInputs("t2:parse"), c.ReplayInputs("t2:parse")...) {
		var a struct {
			Bands, Presets, Steps string
			Input                 *struct{ Bands, Presets, Steps string }
		}
		if json.Unmarshal(raw, &a) != nil {
			continue
		}
		if a.Input != nil {
			a.Bands, a.Presets, a.Steps = a.Input.Bands, a.Input.Presets, a.Input.Steps
		}
		if k, ok := parseCaseFromArgs(a.Bands, a.Presets, a.Steps); ok {
			jobs = append(jobs, job{k, k.Steps, "replay"})
		}
	}
	if c.ReplayInputs("t2:parse") != nil {
		replaying = true
		n = 0
	}
	_ = replaying
	for i := 0; i < n; i++ {
		if i%2 == 0 {
			k := genParseCase(rng, i)
			jobs = append(jobs, job{k, k.Steps, "garbage"})
			continue
		}
		k, ok := validParseCase(rng, i)
		if !ok {
			continue
		}
		total := 0
		for _, s := range k.Steps {
			total += len(s.Data)
		}
		cp := func(upto int) []parseStep {
			out := make([]parseStep, upto+1)
			for j := 0; j <= upto; j++ {
				out[j] = parseStep{k.Steps[j].Layer, k.Steps[j].TermAll, append([]byte{}, k.Steps[j].Data...)}
			}
			return out
		}
		switch {
		case total <= 20 && len(k.Steps) <= 3 && i%4 == 1: // truncation at every offset of every layer
			for li := range k.Steps {
				for cut := 0; cut < len(k.Steps[li].Data); cut++ {
					st := cp(li)
					st[li].Data = st[li].Data[:cut]
					jobs = append(jobs, job{k, st, "truncate_every_offset"})
				}
			}
		case total <= 12 && i%4 == 3: // every single-bit flip of one layer, later layers following
			li := rng.Intn(len(k.Steps))
			for bit := 0; bit < 8*len(k.Steps[li].Data); bit++ {
				st := cp(len(k.Steps) - 1)
				st[li].Data[bit/8] ^= 0x80 >> uint(bit%8)
				jobs = append(jobs, job{k, st, "flip_every_bit"})
			}
		default:
			st := cp(len(k.Steps) - 1)
			for m := rng.Range(1, 3); m > 0; m-- {
				li := rng.Intn(len(st))
				d := st[li].Data
				switch rng.Intn(6) {
				case 0:
					if len(d) > 0 {
						st[li].Data = d[:rng.Intn(len(d))]
					}
				case 1:
					st[li].Layer = garbageLayer(rng)
				case 2:
					st[li].TermAll = !st[li].TermAll
				case 3: // layers out of order / repeated
					lj := rng.Intn(len(st))
					st[li], st[lj] = st[lj], st[li]
				default:
					for f := rng.Range(1, 3); f > 0 && len(d) > 0; f-- {
						d[rng.Intn(len(d))] ^= byte(1 << uint(rng.Intn(8)))
					}
				}
			}
			jobs = append(jobs, job{k, st, "valid_mutated"})
		}
	}
	ParallelFor(len(jobs), c.Work, func(i int) {
		j := jobs[i]
		k := j.k
		bands, presets, steps := dBandsArg(k.Dims, k.Positions), k.presetsArg(), k.stepsArg(j.steps)
		nonEmpty, bytesN := false, 0
		dist := []string{"parse.kind." + j.kind}
		for bi, d := range k.Dims {
			if d[0] > 0 && d[1] > 0 {
				nonEmpty = true
			} else {
				dist = append(dist, "empty_band")
			}
			if k.HasStates[bi] {
				dist = append(dist, "parse.preset_states")
			}
			if k.Trees[bi] != nil {
				dist = append(dist, "parse.preset_trees")
			}
		}
		for _, s := range j.steps {
			bytesN += len(s.Data)
			if s.Layer >= 999 {
				dist = append(dist, "parse.layer_ge_999")
			}
		}
		key := fmt.Sprintf("parse:%s:%s:%s", bands, presets, steps)
		in := map[string]interface{}{"bands": bands, "presets": presets, "steps": steps}
		impl, pmsg, presetFailed := k.run(j.steps)
		cls := "ok"
		switch {
		case strings.HasSuffix(impl, "panic"):
			cls = "panic"
		case strings.HasSuffix(impl, "err"):
			cls = "err"
		}
		dist = append(dist, "parse.class."+cls)
		c.R.Case(key, nonEmpty && bytesN >= 2, dist...)
		if i < 2 {
			c.R.Sample(map[string]interface{}{"suite": "t2:parse", "case": in})
		}
		if presetFailed {
			c.R.Count("parse.preset_failed")
			if impl == "panic" {
				c.R.Fail("oracle", "t2:parse", "t2:parse:panic", pmsg, in)
			}
			return
		}
		c.R.Oracle("t2:parse")
		if cls == "panic" {
			c.R.Fail("oracle", "t2:parse", "t2:parse:panic", pmsg, in)
		}
		c.CorrEq("t2:parse", "t2:parse:"+j.kind, mcall(c, "t2_hdr_dec", bands, presets, steps), impl, in)
	})
}

// ---------------------------------------------------------------------------------------
// C08 t2:packets — DecodePackets + gatherCBData on corrupted tile data

func suiteParsePackets(c *Ctx) {
	rng := c.Rng.Fork()
	n := c.N(600, 8000)
	type job struct {
		k                 pkCase
		seed              uint64
		strict, resilient bool
	}
	var jobs []job
	for _, raw := range append(c.CorpusInputs("t2:parse:packets"), c.ReplayInputs("t2:parse:packets")...) {
		var a struct {
			Case              *pkCase `json:"case"`
			JSeed             uint64  `json:"jseed"`
			Strict, Resilient bool
			Input             *struct {
				Case              *pkCase `json:"case"`
				JSeed             uint64  `json:"jseed"`
				Strict, Resilient bool
			}
		}
		if json.Unmarshal(raw, &a) != nil {
			continue
		}
		if a.Input != nil {
			a.Case, a.JSeed, a.Strict, a.Resilient = a.Input.Case, a.Input.JSeed, a.Input.Strict, a.Input.Resilient
		}
		if a.Case != nil {
			jobs = append(jobs, job{*a.Case, a.JSeed, a.Strict, a.Resilient})
		}
	}
	if c.ReplayInputs("t2:parse:packets") != nil {
		n = 0
	}
	for i := 0; i < n; i++ {
		jobs = append(jobs, job{genPkCase(rng, 3*i+1, 40), rng.U64(), rng.Intn(3) == 0, rng.Intn(3) == 0}) // index 3i+1: light class, all progressions
	}
	n = len(jobs)
	ParallelFor(n, c.Work, func(i int) {
		j := jobs[i]
		k := j.k
		r := NewRand(j.seed)
		t := buildTile(k)
		_, data, bad := t.encode()
		if bad != "" {
			c.R.Count("parsepk.encode_failed")
			return
		}
		d := append([]byte{}, data...)
		kind := ""
		switch r.Intn(7) {
		case 0:
			kind = "truncated"
			d = d[:r.Intn(len(d)+1)]
		case 1:
			kind = "random"
			d = garbageData(r, r.Range(0, max(len(d), 8)))
		case 2:
			kind = "all_ff"
			for q := range d {
				d[q] = 0xFF
			}
		case 3:
			kind = "range_overwritten"
			if len(d) > 0 {
				a := r.Intn(len(d))
				b := min(len(d), a+r.Range(1, 16))
				v := byte(r.Pick(0xFF, 0x00, 0x80))
				for q := a; q < b; q++ {
					d[q] = v
				}
			}
		case 4:
			kind = "valid"
		default:
			kind = "bit_flips"
			for f := r.Range(1, 4); f > 0 && len(d) > 0; f-- {
				q := r.Intn(len(d))
				if r.Bool() {
					q = r.Intn(min(len(d), 12)) // early headers steer everything after them
				}
				d[q] ^= byte(1 << uint(r.Intn(8)))
			}
		}
		ordKind := "td_order"
		if r.Intn(3) == 0 { // gatherCBData with a precinct order that does not fit the packets
			ordKind = "damaged_order"
			ms := NewRand(r.U64())
			t.mutOrd = func(o map[int]map[int][]int) {
				for res, m := range o {
					for p, l := range m {
						switch ms.Intn(6) {
						case 0:
							delete(m, p)
						case 1:
							if len(l) > 0 {
								m[p] = l[:ms.Intn(len(l))]
							}
						case 2:
							m[p] = append(l, ms.Range(0, 5))
						case 3:
							if len(l) > 1 {
								l[0], l[len(l)-1] = l[len(l)-1], l[0]
							}
						}
					}
					if ms.Intn(12) == 0 {
						delete(o, res)
					}
				}
			}
		}
		in := map[string]interface{}{"case": k, "kind": kind, "order": ordKind, "jseed": j.seed, "strict": j.strict, "resilient": j.resilient, "data": clipArg(Hex(d))}
		impl, pmsg, pd, _, tdOrder := t.decodeStr(d, j.strict, j.resilient)
		cls := impl
		if strings.HasPrefix(impl, "ok:") {
			cls = "ok"
		}
		c.R.Case(fmt.Sprintf("parsepk:%+v:%s:%v:%v:%x", k, kind, j.strict, j.resilient, j.seed), len(t.blocks) >= 1 && len(d) >= 2,
			"parsepk.kind."+kind, "parsepk.class."+cls, "parsepk.gather."+ordKind, "progression="+progNames[k.Prog], fmt.Sprintf("parsepk.strict.%v.resilient.%v", j.strict, j.resilient))
		if i < 2 {
			c.R.Sample(map[string]interface{}{"suite": "t2:parse:packets", "case": k, "kind": kind, "bytes": len(d)})
		}
		c.R.Oracle("t2:parse:packets")
		if cls == "panic" {
			c.R.Fail("oracle", "t2:parse:packets", "t2:packets:panic", pmsg, in)
		}
		if t.modelCheap(c, len(d)) {
			c.CorrEq("t2:parse:packets", "t2:parse:packets:"+kind, t.modelDecode(c, d, j.strict, j.resilient, pd, tdOrder), impl, in)
		} else {
			c.R.Count("parsepk.corr_skipped_cost")
		}
	})
}

// parseCaseFromArgs parses the model arguments of t2_hdr_dec back into a case (replay).
func parseCaseFromArgs(bands, presets, steps string) (parseCase, bool) {
	k := parseCase{Kind: "replay"}
	split := func(s, sep string) []string {
		if s == "_" || s == "" {
			return nil
		}
		return strings.Split(s, sep)
	}
	pairs := func(s string) [][2]int {
		fl := ParseInts(s)
		var out [][2]int
		for i := 0; i+1 < len(fl); i += 2 {
			out = append(out, [2]int{fl[i], fl[i+1]})
		}
		return out
	}
	dotq := func(s string) [][3]int {
		var out [][3]int
		for _, q := range split(s, "+") {
			f := strings.Split(q, ".")
			if len(f) != 3 {
				continue
			}
			var t [3]int
			for i := range t {
				t[i], _ = strconv.Atoi(f[i])
			}
			out = append(out, t)
		}
		return out
	}
	pl := split(presets, "|")
	for bi, b := range split(bands, "|") {
		f := strings.Split(b, ":")
		if len(f) != 2 {
			return k, false
		}
		wh := ParseInts(f[0])
		if len(wh) != 2 {
			return k, false
		}
		k.Dims = append(k.Dims, [2]int{wh[0], wh[1]})
		k.Positions = append(k.Positions, pairs(f[1]))
		var sts []t2.VerifCBState
		has := false
		var tp *treePreset
		if bi < len(pl) && pl[bi] != "-" {
			for _, p := range strings.Split(pl[bi], "&") {
				switch {
				case strings.HasPrefix(p, "S="):
					has = true
					for _, e := range split(p[2:], ";") {
						v := ParseInts(e)
						if len(v) == 5 {
							sts = append(sts, t2.VerifCBState{Included: v[0] != 0, FirstLayer: v[1], ZeroBitPlanes: v[2], NumPassesTotal: v[3], NumLenBits: v[4]})
						}
					}
				case strings.HasPrefix(p, "T="):
					f := strings.Split(p[2:], ",")
					if len(f) == 6 {
						tp = &treePreset{InclData: UnHex(f[2]), InclQ: dotq(f[3]), ZbpData: UnHex(f[4]), ZbpQ: dotq(f[5])}
						tp.W, _ = strconv.Atoi(f[0])
						tp.H, _ = strconv.Atoi(f[1])
					}
				}
			}
		}
		k.States = append(k.States, sts)
		k.HasStates = append(k.HasStates, has)
		k.Trees = append(k.Trees, tp)
	}
	for _, st := range split(steps, "#") {
		f := strings.Split(st, ",")
		if len(f) != 3 {
			return k, false
		}
		l, _ := strconv.Atoi(f[0])
		k.Steps = append(k.Steps, parseStep{Layer: l, TermAll: f[1] == "1", Data: UnHex(f[2])})
	}
	return k, true
}
