//go:build verif

package t2s

import (
	"bytes"
	"fmt"
	"sort"
	"strings"

	"github.com/cocosip/go-dicom-codecs/jpeg2000/t2"
	. "verif/harness/vhlib"
)

// ---------------------------------------------------------------------------------------
// t2:packets — whole tiles through PacketEncoder / PacketDecoder / gatherCBData

var progNames = []string{"LRCP", "RLCP", "RPCL", "PCRL", "CPRL"}

type tileBlk struct {
	blkSpec
	Comp, Res, Pidx, Global int
}

type pkCase struct {
	W, H, Levels, CBW, CBH, NC, NL, Prog int
	PrecW, PrecH                         int // 0 = default (2^15)
	TermAll                              bool
	Big                                  bool // contributions above 65535 bytes allowed (outside the round-trip statement)
	Light                                bool // small tile with short contributions: cheap enough for the model
	Seed                                 uint64
}

type tile struct {
	k       pkCase
	pw, ph  []int   // per resolution
	ppx     []uint8 // per resolution, only with custom precincts
	ppy     []uint8
	blocks  []tileBlk
	multi   bool                        // some (comp, res) has more than one precinct with blocks
	mutOrd  func(map[int]map[int][]int) // optional: damages the precinct order handed to gatherCBData
	maxData int
}

func ilog2(n int) int {
	r := 0
	for n > 1 {
		n >>= 1
		r++
	}
	return r
}

func ceilDivPow2(n, pow int) int {
	if pow <= 0 {
		return n
	}
	return (n + (1 << uint(pow)) - 1) >> uint(pow)
}

// precinctSizes mirrors jpeg2000.Encoder.getPrecinctSizeExponents.
func precinctSizes(k pkCase) (pw, ph []int, ppx, ppy []uint8) {
	custom := k.PrecW > 0 || k.PrecH > 0
	for res := 0; res <= k.Levels; res++ {
		w, h := k.PrecW, k.PrecH
		if w == 0 {
			w = 1 << 15
		}
		if h == 0 {
			h = 1 << 15
		}
		ex, ey := ilog2(w), ilog2(h)
		if custom {
			if shift := k.Levels - res; shift > 0 {
				ex, ey = max(ex-shift, 0), max(ey-shift, 0)
			}
		}
		ex, ey = min(ex, 15), min(ey, 15)
		pw = append(pw, 1<<uint(ex))
		ph = append(ph, 1<<uint(ey))
		if custom {
			ppx = append(ppx, uint8(ex))
			ppy = append(ppy, uint8(ey))
		}
	}
	return
}

// countBlocks: code-blocks of one component.
func countBlocks(k pkCase) int {
	n := 0
	for res := 0; res <= k.Levels; res++ {
		_, _, _, _, bands := t2.VerifBandInfos(k.W, k.H, 0, 0, k.Levels, res)
		for _, b := range bands {
			if b.Width > 0 && b.Height > 0 {
				n += ((b.Width + k.CBW - 1) / k.CBW) * ((b.Height + k.CBH - 1) / k.CBH)
			}
		}
	}
	return n
}

func genPkCase(r *Rand, i int, maxBlocks int) pkCase {
	k := pkCase{W: r.Range(1, 200), H: r.Range(1, 200), Levels: r.Range(0, 5), CBW: r.Pick(4, 8, 16, 32, 64), CBH: r.Pick(4, 8, 16, 32, 64),
		NC: r.Range(1, 3), NL: r.Range(1, 6), Prog: i % 5, TermAll: r.Intn(5) == 0, Seed: r.U64()}
	switch r.Intn(6) {
	case 0:
		k.W, k.H = r.Range(1, 12), r.Range(1, 12)
	case 1:
		k.W, k.H = r.Pick(1, 2, 3, 63, 64, 65, 127, 128, 129), r.Pick(1, 2, 3, 31, 32, 33, 64, 65)
	}
	if r.Intn(2) == 0 {
		k.PrecW, k.PrecH = r.Pick(32, 64, 128, 256), r.Pick(32, 64, 128, 256)
		if r.Intn(6) == 0 {
			if r.Bool() {
				k.PrecW = 0
			} else {
				k.PrecH = 0
			}
		}
	}
	k.Big = i%40 == 7
	if i%3 != 0 && !k.Big { // correspondence class
		k.Light = true
		maxBlocks = min(maxBlocks, 40)
		if r.Intn(4) != 0 {
			k.W, k.H = r.Range(1, 48), r.Range(1, 48)
		}
	}
	if k.Big { // contributions of 65535..70000 bytes: a tiny tile, so that the model can follow
		k.W, k.H, k.Levels, k.NC, k.NL = r.Range(1, 8), r.Range(1, 8), r.Range(0, 1), 1, r.Range(1, 2)
	}
	for countBlocks(k)*k.NC > maxBlocks {
		if k.CBW < 64 {
			k.CBW *= 2
		}
		if k.CBH < 64 {
			k.CBH *= 2
		}
		if k.CBW == 64 && k.CBH == 64 {
			if k.NC > 1 {
				k.NC--
			} else {
				k.W, k.H = (k.W+1)/2, (k.H+1)/2
			}
		}
	}
	return k
}

// buildTile lays the code-blocks out exactly as jpeg2000.Encoder.buildTilePacketEncoderAt does
// (tile origin 0,0) and gives every block a random layer schedule with noise data.
func buildTile(k pkCase) *tile {
	t := &tile{k: k}
	t.pw, t.ph, t.ppx, t.ppy = precinctSizes(k)
	r := NewRand(k.Seed)
	o := blkOpts{L: k.NL, TermAll: k.TermAll, BigData: k.Big, MaxBig: 3, Light: k.Light}
	for comp := 0; comp < k.NC; comp++ {
		global := 0
		for res := 0; res <= k.Levels; res++ {
			_, _, _, _, bands := t2.VerifBandInfos(k.W, k.H, 0, 0, k.Levels, res)
			resW := max(ceilDivPow2(k.W, k.Levels-res), 1)
			pw, ph := t.pw[res], t.ph[res]
			numPX := (resW + pw - 1) / pw
			seen := map[int]bool{}
			for _, b := range bands {
				if b.Width <= 0 || b.Height <= 0 {
					continue
				}
				ncx, ncy := (b.Width+k.CBW-1)/k.CBW, (b.Height+k.CBH-1)/k.CBH
				for cby := 0; cby < ncy; cby++ {
					for cbx := 0; cbx < ncx; cbx++ {
						rx, ry := cbx*k.CBW, cby*k.CBH
						px, py := rx/pw, ry/ph
						pidx := py*numPX + px
						seen[pidx] = true
						bs := genBlock(r, o, (rx-px*pw)/k.CBW, (ry-py*ph)/k.CBH, b.Band)
						for _, d := range bs.LayerData {
							t.maxData = max(t.maxData, len(d))
						}
						t.blocks = append(t.blocks, tileBlk{bs, comp, res, pidx, global})
						global++
					}
				}
			}
			if len(seen) > 1 {
				t.multi = true
			}
		}
	}
	return t
}

func (t *tile) encode() ([]t2.Packet, []byte, string) {
	k := t.k
	pe := t2.NewPacketEncoder(k.NC, k.NL, k.Levels+1, t2.ProgressionOrder(k.Prog))
	pe.SetImageDimensions(k.W, k.H)
	pe.SetPrecinctSizes(t.pw, t.ph)
	for c := 0; c < k.NC; c++ {
		pe.SetComponentSampling(c, 1, 1)
		pe.SetComponentBounds(c, 0, 0, k.W, k.H)
	}
	for i := range t.blocks {
		b := &t.blocks[i]
		pe.AddCodeBlock(b.Comp, b.Res, b.Pidx, b.goBlock())
	}
	var pk []t2.Packet
	var err error
	if p, msg := Safely(func() { pk, err = pe.EncodePackets() }); p {
		return nil, nil, "panic: " + msg
	}
	if err != nil {
		return nil, nil, "error: " + err.Error()
	}
	var buf bytes.Buffer
	for _, p := range pk {
		buf.Write(p.Header)
		buf.Write(p.Body)
	}
	return pk, buf.Bytes(), ""
}

func (t *tile) newDecoder(data []byte, strict, resilient bool) *t2.PacketDecoder {
	k := t.k
	style := uint8(0)
	if k.TermAll {
		style = 0x04
	}
	pd := t2.NewPacketDecoder(data, k.NC, k.NL, k.Levels+1, t2.ProgressionOrder(k.Prog), style)
	pd.SetResilient(resilient)
	pd.SetStrict(strict)
	pd.SetImageDimensions(k.W, k.H, k.CBW, k.CBH)
	for c := 0; c < k.NC; c++ {
		pd.SetComponentBounds(c, 0, 0, k.W, k.H)
		pd.SetComponentSampling(c, 1, 1)
	}
	if len(t.ppx) > 0 {
		pd.SetPrecinctSizes(t.pw, t.ph)
	}
	return pd
}

// ---- model arguments

func (t *tile) geomArgs() (bounds, sampling, prec string) {
	var b, s, p []string
	for c := 0; c < t.k.NC; c++ {
		b = append(b, fmt.Sprintf("0,0,%d,%d", t.k.W, t.k.H))
		s = append(s, "1,1")
	}
	for res := range t.pw {
		p = append(p, fmt.Sprintf("%d,%d", t.pw[res], t.ph[res]))
	}
	return strings.Join(b, ";"), strings.Join(s, ";"), strings.Join(p, ";")
}

// cellsArg: the Precinct objects AddCodeBlock builds, per (comp, res, precinct).
func (t *tile) cellsArg() string {
	type cell struct {
		key   [3]int
		bands []*bandSpec
	}
	var cells []*cell
	idx := map[[3]int]*cell{}
	for i := range t.blocks {
		b := &t.blocks[i]
		key := [3]int{b.Comp, b.Res, b.Pidx}
		cl := idx[key]
		if cl == nil {
			cl = &cell{key: key}
			idx[key] = cl
			cells = append(cells, cl)
		}
		var bs *bandSpec
		for _, q := range cl.bands {
			if q.Band == b.Band {
				bs = q
			}
		}
		if bs == nil {
			bs = &bandSpec{Band: b.Band}
			cl.bands = append(cl.bands, bs)
		}
		bs.Blocks = append(bs.Blocks, b.blkSpec)
		bs.W, bs.H = max(bs.W, b.CBX+1), max(bs.H, b.CBY+1)
	}
	parts := make([]string, len(cells))
	for i, cl := range cells {
		bl := make([]string, len(cl.bands))
		for j, q := range cl.bands {
			bl[j] = q.arg()
		}
		parts[i] = fmt.Sprintf("%d,%d,%d=%s", cl.key[0], cl.key[1], cl.key[2], strings.Join(bl, "|"))
	}
	return joinOr(parts, "@", "_")
}

func encPacketsStr(pk []t2.Packet, all []byte) string {
	items := make([]string, len(pk))
	for i, p := range pk {
		items[i] = fmt.Sprintf("%d,%d,%d,%d,%d,%d", p.LayerIndex, p.ResolutionLevel, p.ComponentIndex, p.PrecinctIndex, len(p.Header), len(p.Body))
	}
	return fmt.Sprintf("ok:%s|%s", joinOr(items, ";", "_"), Hex(all))
}

func orderArg(nc int, order map[int]map[int][]int) string {
	var parts []string
	var rs []int
	for r := range order {
		rs = append(rs, r)
	}
	sort.Ints(rs)
	for c := 0; c < nc; c++ {
		for _, r := range rs {
			var ps []int
			for p := range order[r] {
				ps = append(ps, p)
			}
			sort.Ints(ps)
			for _, p := range ps {
				if order[r][p] != nil {
					parts = append(parts, fmt.Sprintf("%d,%d,%d:%s", c, r, p, Ints(order[r][p])))
				}
			}
		}
	}
	return joinOr(parts, ";", "_")
}

// decoderGeomArgs dumps the PacketDecoder's derived geometry in the format of t2_pk_dec.
func decoderGeomArgs(pd *t2.PacketDecoder, nc, nr int) (dpidx, dgeo string, orders []t2.VerifPrecinctOrder) {
	bands, orders := t2.VerifDecoderGeometry(pd)
	sort.Slice(bands, func(i, j int) bool {
		a, b := bands[i], bands[j]
		return lessInts([]int{a.Comp, a.Res, a.Precinct, a.Band}, []int{b.Comp, b.Res, b.Precinct, b.Band})
	})
	var gp []string
	for _, b := range bands {
		var fl []int
		for _, p := range b.Positions {
			fl = append(fl, p[0], p[1])
		}
		gp = append(gp, fmt.Sprintf("%d,%d,%d,%d:%d,%d:%s", b.Comp, b.Res, b.Precinct, b.Band, b.NumCBX, b.NumCBY, Ints(fl)))
	}
	var ip []string
	for c := 0; c < nc; c++ {
		for r := 0; r < nr; r++ {
			if l := t2.VerifDecoderPrecinctIndices(pd, c, r); len(l) > 0 {
				ip = append(ip, fmt.Sprintf("%d,%d:%s", c, r, Ints(l)))
			}
		}
	}
	return joinOr(ip, ";", "_"), joinOr(gp, ";", "_"), orders
}

func lessInts(a, b []int) bool {
	for i := range a {
		if a[i] != b[i] {
			return a[i] < b[i]
		}
	}
	return false
}

func decPacketsStr(pk []t2.Packet) string {
	parts := make([]string, len(pk))
	for i, p := range pk {
		il := make([]string, len(p.CodeBlockIncls))
		for j, ci := range p.CodeBlockIncls {
			il[j] = dInclStr(ci) + ":" + b01(ci.Corrupted)
		}
		parts[i] = fmt.Sprintf("%d,%d,%d,%d,%s,%s|%s|%s", p.LayerIndex, p.ResolutionLevel, p.ComponentIndex, p.PrecinctIndex,
			b01(p.HeaderPresent), b01(p.PartialBuffer), joinOr(il, ";", "_"), Hex(p.Body))
	}
	return joinOr(parts, "#", "_")
}

func gatherStr(nc int, order map[int]map[int][]int, pk []t2.Packet) (string, []map[string]t2.VerifCBInfo) {
	parts := make([]string, nc)
	maps := make([]map[string]t2.VerifCBInfo, nc)
	for c := 0; c < nc; c++ {
		m := t2.VerifGatherCBData(c, order, pk)
		maps[c] = m
		type ent struct {
			r, i int
			v    t2.VerifCBInfo
		}
		var es []ent
		for key, v := range m {
			var r, i int
			fmt.Sscanf(key, "%d:%d", &r, &i)
			es = append(es, ent{r, i, v})
		}
		sort.Slice(es, func(a, b int) bool { return lessInts([]int{es[a].r, es[a].i}, []int{es[b].r, es[b].i}) })
		el := make([]string, len(es))
		for j, e := range es {
			pl := "nil"
			if e.v.PassLengths != nil {
				pl = Ints(e.v.PassLengths)
			}
			el[j] = fmt.Sprintf("%d,%d:%s:%d,%d,%s,%s:%s", e.r, e.i, Hex(e.v.Data), e.v.TotalPasses, e.v.ZeroBitplanes, b01(e.v.ZeroBitplanesSet), b01(e.v.UseTERMALL), pl)
		}
		parts[c] = joinOr(el, ";", "_")
	}
	return joinOr(parts, "/", "_"), maps
}

// decodeStr runs DecodePackets + gatherCBData and renders the reply format of t2_pk_dec.
func (t *tile) decodeStr(data []byte, strict, resilient bool) (impl string, panicMsg string, pd *t2.PacketDecoder, maps []map[string]t2.VerifCBInfo, tdOrder map[int]map[int][]int) {
	pd = t.newDecoder(data, strict, resilient)
	var pk []t2.Packet
	var err error
	if p, msg := Safely(func() { pk, err = pd.DecodePackets() }); p {
		return "panic", msg, pd, nil, nil
	}
	if err != nil {
		return "err", "", pd, nil, nil
	}
	k := t.k
	if p, msg := Safely(func() {
		tdOrder = t2.VerifTilePrecinctOrder(k.W, k.H, 0, 0, k.Levels, k.CBW, k.CBH, t.ppx, t.ppy)
		if t.mutOrd != nil {
			t.mutOrd(tdOrder)
		}
		var g string
		g, maps = gatherStr(k.NC, tdOrder, pk)
		impl = fmt.Sprintf("ok:%s@%s", decPacketsStr(pk), g)
	}); p {
		return "panic", "gatherCBData: " + msg, pd, nil, nil
	}
	return impl, "", pd, maps, tdOrder
}

func (t *tile) modelDecode(c *Ctx, data []byte, strict, resilient bool, pd *t2.PacketDecoder, tdOrder map[int]map[int][]int) string {
	k := t.k
	bounds, sampling, prec := t.geomArgs()
	dpidx, dgeo, _ := decoderGeomArgs(pd, k.NC, k.Levels+1)
	if tdOrder == nil {
		tdOrder = t2.VerifTilePrecinctOrder(k.W, k.H, 0, 0, k.Levels, k.CBW, k.CBH, t.ppx, t.ppy)
	}
	style := "0"
	if k.TermAll {
		style = "4"
	}
	return mcall(c, "t2_pk_dec", Hex(data), fmt.Sprint(k.Prog), fmt.Sprint(k.NL), fmt.Sprint(k.Levels+1), fmt.Sprint(k.NC), bounds, sampling, prec,
		dpidx, dgeo, style, b01(strict), b01(resilient), orderArg(k.NC, tdOrder))
}

// unsupportedProgressions: orders outside 0..4 are an error on both sides.
func unsupportedProgressions(c *Ctx) {
	for _, prog := range []int{5, 6, 255, -1} {
		k := pkCase{W: 9, H: 7, Levels: 1, CBW: 4, CBH: 4, NC: 1, NL: 2, Prog: prog, Light: true, Seed: 77}
		t := buildTile(k)
		_, _, bad := t.encode()
		impl := "ok"
		if strings.HasPrefix(bad, "error") {
			impl = "err"
		} else if bad != "" {
			impl = "panic"
		}
		bounds, sampling, prec := t.geomArgs()
		in := map[string]interface{}{"case": k}
		c.R.Case(fmt.Sprintf("pk:unsupported:%d", prog), false, "pk.unsupported_progression")
		c.CorrEq("t2:packets:enc", "t2:packets:enc:unsupported", mcall(c, "t2_pk_enc", fmt.Sprint(k.Prog), fmt.Sprint(k.NL), fmt.Sprint(k.Levels+1), fmt.Sprint(k.NC),
			bounds, sampling, prec, t.cellsArg()), impl, in)
		data := []byte{0x80, 0x00, 0x12}
		dimpl, _, pd, _, tdOrder := t.decodeStr(data, false, false)
		c.CorrEq("t2:packets:dec", "t2:packets:dec:unsupported", t.modelDecode(c, data, false, false, pd, tdOrder), dimpl, in)
	}
}

func suitePackets(c *Ctx) {
	rng := c.Rng.Fork()
	unsupportedProgressions(c)
	refs := caseRefs(c, rng, c.N(1000, 12000), "t2:packets:rt", "t2:packets:enc", "t2:packets:dec")
	n := len(refs)
	ParallelFor(n, c.Work, func(i int) {
		lim := 120
		if refs[i].I%9 == 0 {
			lim = 700 // larger tiles: oracle only
		}
		k := genPkCase(NewRand(refs[i].GSeed), refs[i].I, lim)
		t := buildTile(k)
		prog := progNames[k.Prog]
		in := map[string]interface{}{"gseed": refs[i].GSeed, "i": refs[i].I, "case": k}
		dist := []string{"progression=" + prog, fmt.Sprintf("pk.layers.%d", k.NL), fmt.Sprintf("pk.comps.%d", k.NC), fmt.Sprintf("pk.levels.%d", k.Levels),
			fmt.Sprintf("pk.termall.%v", k.TermAll)}
		if t.multi {
			dist = append(dist, "multi_precinct")
		}
		if k.PrecW > 0 || k.PrecH > 0 {
			dist = append(dist, "pk.custom_precincts")
		}
		if t.maxData > 65535 {
			dist = append(dist, "pk.len_gt_65535")
		}
		c.R.Case(fmt.Sprintf("pk:%+v", k), len(t.blocks) >= 2 && k.NL >= 2, dist...)
		if i < 2 {
			c.R.Sample(map[string]interface{}{"suite": "t2:packets", "case": k, "blocks": len(t.blocks)})
		}
		small := false // correspondence only when the list-based model can answer quickly

		pk, data, bad := t.encode()
		if bad != "" {
			c.R.Oracle("t2:packets:rt")
			c.R.Fail("oracle", "t2:packets:rt", "t2:packets:rt:"+prog+":encode-"+strings.SplitN(bad, ":", 2)[0], bad, in)
			if small {
				bounds, sampling, prec := t.geomArgs()
				c.CorrEq("t2:packets:enc", "t2:packets:enc:"+prog, mcall(c, "t2_pk_enc", fmt.Sprint(k.Prog), fmt.Sprint(k.NL), fmt.Sprint(k.Levels+1), fmt.Sprint(k.NC),
					bounds, sampling, prec, t.cellsArg()), strings.SplitN(bad, ":", 2)[0][:3], in)
			}
			return
		}
		small = t.modelCheap(c, len(data))
		if !small {
			c.R.Count("pk.corr_skipped_cost")
		} else if t.multi {
			c.R.Count("pk.corr_multi_precinct")
		}
		endsFF := false
		for _, p := range pk {
			if h := p.Header; len(h) >= 2 && h[len(h)-2] == 0xFF {
				endsFF = true
			}
		}
		if endsFF {
			c.R.Count("hdr_ends_ff")
		}
		if small {
			bounds, sampling, prec := t.geomArgs()
			c.CorrEq("t2:packets:enc", "t2:packets:enc:"+prog, mcall(c, "t2_pk_enc", fmt.Sprint(k.Prog), fmt.Sprint(k.NL), fmt.Sprint(k.Levels+1), fmt.Sprint(k.NC),
				bounds, sampling, prec, t.cellsArg()), encPacketsStr(pk, data), in)
		}

		impl, pmsg, pd, maps, tdOrder := t.decodeStr(data, false, false)
		if small {
			c.CorrEq("t2:packets:dec", "t2:packets:dec:"+prog, t.modelDecode(c, data, false, false, pd, tdOrder), impl, in)
		}

		// ---- oracle (Go alone): every block gets back its data, pass count and zero bit-planes
		if t.maxData > 65535 {
			c.R.Count("pk.rt_skipped_len_gt_65535")
			return
		}
		c.R.Oracle("t2:packets:rt")
		fail := func(what, msg string) {
			c.R.Fail("oracle", "t2:packets:rt", "t2:packets:rt:"+prog+":"+what, msg, in)
		}
		switch impl {
		case "panic":
			fail("panic", pmsg)
			return
		case "err":
			_, err := t.newDecoder(data, false, false).DecodePackets()
			fail("decode-error", fmt.Sprint(err))
			return
		}
		// the two derivations of the precinct order (PacketDecoder / TileDecoder) must agree
		_, _, pdOrders := decoderGeomArgs(pd, k.NC, k.Levels+1)
		for _, o := range pdOrders {
			if Ints(o.Order) != Ints(tdOrder[o.Res][o.Precinct]) {
				fail("precinct-order", fmt.Sprintf("comp %d res %d precinct %d: PacketDecoder order %v, TileDecoder order %v", o.Comp, o.Res, o.Precinct, o.Order, tdOrder[o.Res][o.Precinct]))
				return
			}
		}
		used := make([]map[string]bool, k.NC)
		for ci := range used {
			used[ci] = map[string]bool{}
		}
		for bi := range t.blocks {
			b := &t.blocks[bi]
			key := fmt.Sprintf("%d:%d", b.Res, b.Global)
			used[b.Comp][key] = true
			got, ok := maps[b.Comp][key]
			var want []byte
			for _, d := range b.LayerData {
				want = append(want, d...)
			}
			total := 0
			if len(b.LayerPasses) > 0 {
				total = b.LayerPasses[len(b.LayerPasses)-1]
			}
			id := fmt.Sprintf("comp %d res %d band %d precinct %d cb (%d,%d) global %d", b.Comp, b.Res, b.Band, b.Pidx, b.CBX, b.CBY, b.Global)
			switch {
			case total == 0:
				if ok && (len(got.Data) > 0 || got.TotalPasses != 0) {
					fail("phantom", fmt.Sprintf("%s: never included, decoder has %d bytes / %d passes", id, len(got.Data), got.TotalPasses))
					return
				}
			case !ok:
				fail("missing", id+": no data gathered")
				return
			case !bytes.Equal(got.Data, want):
				fail("data", fmt.Sprintf("%s: gathered %d bytes, encoder gave %d bytes (first difference at %d)", id, len(got.Data), len(want), firstDiff(got.Data, want)))
				return
			case got.TotalPasses != total:
				fail("passes", fmt.Sprintf("%s: gathered %d passes, encoder gave %d", id, got.TotalPasses, total))
				return
			case !got.ZeroBitplanesSet || got.ZeroBitplanes != b.Zbp:
				fail("zbp", fmt.Sprintf("%s: zero bit-planes %d (set %v), encoder %d", id, got.ZeroBitplanes, got.ZeroBitplanesSet, b.Zbp))
				return
			case k.TermAll && b.TermAll && Ints(got.PassLengths) != Ints(b.PassLengths):
				fail("passlengths", fmt.Sprintf("%s: pass lengths %v, encoder %v", id, got.PassLengths, b.PassLengths))
				return
			}
		}
		for ci := range maps {
			for key := range maps[ci] {
				if !used[ci][key] {
					fail("phantom", fmt.Sprintf("comp %d: gathered data for unknown block %s", ci, key))
					return
				}
			}
		}
	})
}

func firstDiff(a, b []byte) int {
	for i := 0; i < len(a) && i < len(b); i++ {
		if a[i] != b[i] {
			return i
		}
	}
	return min(len(a), len(b))
}

// modelCheap: the extracted decoder walks the whole remaining tile data for every included
// block (zlen, comma_fuel) and evaluates the precinct position key for every pair of
// precincts in the position-driven progressions; correspondence runs only where that stays
// within a fraction of a second.
func (t *tile) modelCheap(c *Ctx, dataLen int) bool {
	incl := 0
	perCR := map[[2]int]map[int]bool{}
	for i := range t.blocks {
		b := &t.blocks[i]
		prev := 0
		for _, lp := range b.LayerPasses {
			if lp > prev {
				incl++
			}
			prev = lp
		}
		key := [2]int{b.Comp, b.Res}
		if perCR[key] == nil {
			perCR[key] = map[int]bool{}
		}
		perCR[key][b.Pidx] = true
	}
	maxP := 0
	for _, m := range perCR {
		maxP = max(maxP, len(m))
	}
	limCost, limP := 300000, 10
	if c.Thor {
		limCost, limP = 2000000, 30
	}
	if t.k.Big {
		limCost = 2000000
	}
	return incl*dataLen <= limCost && (t.k.Prog < 2 || maxP <= limP)
}
