//go:build verif

package t2s

import (
	"fmt"
	"sort"
	"strings"

	"github.com/cocosip/go-dicom-codecs/jpeg2000/t1"
	"github.com/cocosip/go-dicom-codecs/jpeg2000/t2"
	. "verif/harness/vhlib"
)

// ---------------------------------------------------------------------------------------
// code-block layer schedules shared by t2:header and t2:packets

type blkSpec struct {
	CBX, CBY, Band, Zbp int
	LayerPasses         []int    // cumulative; nil with Single
	LayerData           [][]byte // nil with Single
	PassLengths         []int    // cumulative, nil = absent
	Passes              [][3]int // (Len, ActualBytes, Terminated01): cb.Passes; only in correspondence cases
	TermAll             bool
	Single              bool // single-layer fallback: Data + NumPassesTotal
	Data                []byte
	NumPassesTotal      int
	First               int // first inclusion layer, L = never
}

type blkOpts struct {
	L        int
	TermAll  bool
	BigData  bool // allow contributions up to 70000 bytes (one in MaxBig)
	MaxBig   int
	Light    bool // short contributions only (keeps the model's list-based decoder fast)
	Variants bool // Single / Passes variants (correspondence only, no round-trip oracle)
}

func genBlock(r *Rand, o blkOpts, cbx, cby, band int) blkSpec {
	b := blkSpec{CBX: cbx, CBY: cby, Band: band, Zbp: r.Range(0, 31), TermAll: o.TermAll}
	if r.Intn(5) == 0 {
		b.Zbp = r.Pick(0, 1, 30, 31)
	}
	L := o.L
	if o.Variants && L == 1 && r.Intn(4) == 0 {
		b.Single = true
		b.NumPassesTotal = r.Range(0, 12)
		b.Data = noise(r, r.Pick(0, 1, 5, 30, r.Range(0, 300)))
		b.First = 0
		if len(b.Data) == 0 {
			b.First = 1
		}
		if r.Bool() && b.NumPassesTotal > 0 {
			b.PassLengths = splitCum(r, len(b.Data), b.NumPassesTotal)
		}
		b.TermAll = o.TermAll && b.PassLengths != nil
		return b
	}
	b.First = r.Range(0, L)
	if L >= 999 && r.Bool() {
		b.First = r.Range(996, L)
	}
	switch r.Intn(6) {
	case 0:
		b.First = 0
	case 1:
		b.First = max(L-1, 0) // late inclusion
	case 2:
		if r.Intn(3) == 0 {
			b.First = L // never included
		}
	}
	total := 0
	var perPass []int
	for l := 0; l < L; l++ {
		np := 0
		switch {
		case l < b.First:
		case l == b.First:
			np = r.Range(1, 6)
		default:
			if r.Intn(3) != 0 && (L < 999 || r.Intn(60) == 0) {
				np = r.Range(1, 6)
			}
		}
		if np > 0 {
			switch r.Intn(14) {
			case 0:
				np = r.Pick(6, 7, 36, 37, 38, 100, 164)
			case 1:
				np = r.Range(1, 40)
			}
		}
		dl := 0
		if np > 0 {
			switch r.Intn(12) {
			case 0:
			case 1:
				dl = r.Range(200, 4100)
				if o.Light {
					dl = r.Range(13, 40)
				}
			case 2:
				dl = r.Pick(1, 7, 8, 15, 16, 255, 256, 257)
			default:
				dl = r.Range(1, 40)
				if o.Light {
					dl = r.Range(1, 12)
				}
			}
			if o.BigData && r.Intn(o.MaxBig) == 0 {
				dl = r.Pick(65535, 65536, 70000, 32768, r.Range(20000, 70000))
			}
		}
		total += np
		b.LayerPasses = append(b.LayerPasses, total)
		b.LayerData = append(b.LayerData, noise(r, dl))
		if np > 0 {
			perPass = append(perPass, splitLens(r, dl, np)...)
		}
	}
	if o.TermAll || r.Bool() {
		cum := 0
		b.PassLengths = make([]int, 0, len(perPass))
		for _, v := range perPass {
			cum += v
			b.PassLengths = append(b.PassLengths, cum)
		}
		if len(b.PassLengths) == 0 {
			b.PassLengths = nil
		}
	}
	if o.Variants && r.Intn(6) == 0 { // per-pass data instead of / besides PassLengths
		for _, v := range perPass {
			p := [3]int{v, v, 0}
			switch r.Intn(4) {
			case 0:
				p[0] = 0 // Len 0: ActualBytes is used
			case 1:
				p[2] = 1 // terminated pass
			}
			b.Passes = append(b.Passes, p)
		}
		if r.Bool() {
			b.PassLengths = nil
		}
	}
	if b.TermAll && b.PassLengths == nil {
		b.TermAll = false
	}
	return b
}

// splitLens: np non-negative lengths summing to total (zeros frequent).
func splitLens(r *Rand, total, np int) []int {
	out := make([]int, np)
	rem := total
	for i := 0; i < np-1; i++ {
		if rem > 0 && r.Intn(3) != 0 {
			out[i] = r.Intn(rem + 1)
			if r.Bool() {
				out[i] = r.Intn(min(rem, 16) + 1)
			}
		}
		rem -= out[i]
	}
	out[np-1] = rem
	return out
}

func splitCum(r *Rand, total, np int) []int {
	out := splitLens(r, total, np)
	cum := 0
	for i := range out {
		cum += out[i]
		out[i] = cum
	}
	return out
}

func (b *blkSpec) goBlock() *t2.PrecinctCodeBlock {
	cb := &t2.PrecinctCodeBlock{CBX: b.CBX, CBY: b.CBY, Band: b.Band, ZeroBitPlanes: b.Zbp, UseTERMALL: b.TermAll}
	if b.Single {
		cb.Data = append([]byte{}, b.Data...)
		cb.NumPassesTotal = b.NumPassesTotal
	} else {
		cb.LayerPasses = append([]int{}, b.LayerPasses...)
		cb.LayerData = make([][]byte, len(b.LayerData))
		for i, d := range b.LayerData {
			cb.LayerData[i] = append([]byte{}, d...)
		}
	}
	if b.PassLengths != nil {
		cb.PassLengths = append([]int{}, b.PassLengths...)
	}
	for _, p := range b.Passes {
		cb.Passes = append(cb.Passes, t1.PassData{Len: p[0], ActualBytes: p[1], Terminated: p[2] != 0})
	}
	return cb
}

// arg renders the block in the format of ops_t2.ml eblock_of_string.
func (b *blkSpec) arg() string {
	ld := "nil"
	if !b.Single {
		if len(b.LayerData) == 0 {
			ld = "e"
		} else {
			parts := make([]string, len(b.LayerData))
			for i, d := range b.LayerData {
				parts[i] = Hex(d)
			}
			ld = strings.Join(parts, ";")
		}
	}
	var ps []int
	for _, p := range b.Passes {
		ps = append(ps, p[0], p[1], p[2])
	}
	return fmt.Sprintf("%d,%d,%d,%s,0,0,%d:%s:%s:%s:%s:%s", b.CBX, b.CBY, b.Zbp, b01(b.TermAll), b.NumPassesTotal,
		Ints(b.LayerPasses), Ints(b.PassLengths), Ints(ps), Hex(b.Data), ld)
}

// rtOK: the block is inside the round-trip statement (layered data, no cb.Passes flags).
func (b *blkSpec) rtOK() bool { return !b.Single && len(b.Passes) == 0 }

type bandSpec struct {
	Band, W, H int
	Blocks     []blkSpec // in insertion order (shuffled)
}

func (p *bandSpec) arg() string {
	parts := []string{fmt.Sprintf("%d,%d,%d", p.Band, p.W, p.H)}
	for i := range p.Blocks {
		parts = append(parts, p.Blocks[i].arg())
	}
	return strings.Join(parts, "/")
}

func bandsArg(bs []bandSpec) string {
	parts := make([]string, len(bs))
	for i := range bs {
		parts[i] = bs[i].arg()
	}
	return joinOr(parts, "|", "_")
}

func (p *bandSpec) goPrecinct() *t2.Precinct {
	pr := &t2.Precinct{SubbandIdx: p.Band, NumCodeBlocksX: p.W, NumCodeBlocksY: p.H, CodeBlocks: []*t2.PrecinctCodeBlock{}}
	for i := range p.Blocks {
		pr.CodeBlocks = append(pr.CodeBlocks, p.Blocks[i].goBlock())
	}
	return pr
}

// sortedPositions: block positions in header order (CBY, CBX).
func (p *bandSpec) sortedBlocks() []*blkSpec {
	out := make([]*blkSpec, len(p.Blocks))
	for i := range p.Blocks {
		out[i] = &p.Blocks[i]
	}
	sort.Slice(out, func(i, j int) bool {
		if out[i].CBY != out[j].CBY {
			return out[i].CBY < out[j].CBY
		}
		return out[i].CBX < out[j].CBX
	})
	return out
}

// ---------------------------------------------------------------------------------------
// t2:header

type hdrCase struct {
	L       int
	TermAll bool
	Bands   []bandSpec
	Layers  []int // encode sequence; 0..L-1 unless Weird
	Weird   bool
	FullPos bool // decoder gets nil positions (row-major grid) for full grids
}

func genHdrCase(r *Rand, i int) hdrCase {
	k := hdrCase{L: r.Range(1, 8), TermAll: r.Intn(4) == 0, FullPos: r.Bool()}
	if i%25 == 0 {
		k.L = r.Range(9, 40)
	}
	many := i%50 == 26 // more layers than the tag-tree placeholder 999
	if many {
		k.L = r.Pick(1000, 1001, 1003)
	}
	o := blkOpts{L: k.L, TermAll: k.TermAll, BigData: i%20 == 0, MaxBig: 25, Variants: i%5 == 4, Light: many}
	nb := r.Range(1, 3)
	if many {
		nb = 1
	}
	for b := 0; b < nb; b++ {
		bs := bandSpec{Band: b + 1, W: r.Range(1, 5), H: r.Range(1, 4)}
		if nb == 1 {
			bs.Band = r.Pick(0, 1)
		}
		switch r.Intn(8) {
		case 0:
			bs.W, bs.H = 0, 0 // empty band
		case 1:
			bs.W, bs.H = 1, 1
		}
		if many {
			bs.W, bs.H = r.Range(1, 2), r.Range(1, 2)
		}
		subset := r.Intn(6) == 0
		for y := 0; y < bs.H; y++ {
			for x := 0; x < bs.W; x++ {
				if subset && r.Intn(3) == 0 {
					continue
				}
				bs.Blocks = append(bs.Blocks, genBlock(r, o, x, y, bs.Band))
			}
		}
		for j := len(bs.Blocks) - 1; j > 0; j-- { // insertion order is not header order
			q := r.Intn(j + 1)
			bs.Blocks[j], bs.Blocks[q] = bs.Blocks[q], bs.Blocks[j]
		}
		k.Bands = append(k.Bands, bs)
	}
	for l := 0; l < k.L; l++ {
		k.Layers = append(k.Layers, l)
	}
	if i%11 == 10 { // layer sequences outside the packet discipline (correspondence only)
		k.Weird = true
		k.Layers = nil
		for n := r.Range(1, 6); n > 0; n-- {
			k.Layers = append(k.Layers, r.Pick(0, 0, 1, 2, 3, k.L-1, k.L, k.L+2, 998, 999, 1000))
		}
	}
	return k
}

func eInclsStr(incls []t2.CodeBlockIncl) string {
	parts := make([]string, len(incls))
	for i, ci := range incls {
		parts[i] = fmt.Sprintf("%s,%d,%d", b01(ci.Included), ci.NumPasses, ci.DataLength)
	}
	return joinOr(parts, ";", "_")
}

func eStateStr(precincts []*t2.Precinct) string {
	parts := make([]string, len(precincts))
	for i, p := range precincts {
		bl := make([]string, len(p.CodeBlocks))
		for j, cb := range p.CodeBlocks {
			bl[j] = fmt.Sprintf("%d,%d,%s,%d", cb.CBX, cb.CBY, b01(cb.Included), cb.NumLenBits)
		}
		parts[i] = joinOr(bl, ";", "_")
	}
	return joinOr(parts, "/", "_")
}

func dInclStr(ci t2.CodeBlockIncl) string {
	return fmt.Sprintf("%s,%s,%d,%d,%d,%s:%s", b01(ci.Included), b01(ci.FirstInclusion), ci.NumPasses, ci.DataLength, ci.ZeroBitplanes,
		b01(ci.UseTERMALL), Ints(ci.PassLengths))
}

func dStatesStr(sts [][]t2.VerifCBState) string {
	parts := make([]string, len(sts))
	for i, b := range sts {
		if b == nil {
			parts[i] = "nil"
			continue
		}
		bl := make([]string, len(b))
		for j, s := range b {
			bl[j] = fmt.Sprintf("%s,%d,%d,%d,%d", b01(s.Included), s.FirstLayer, s.ZeroBitPlanes, s.NumPassesTotal, s.NumLenBits)
		}
		parts[i] = joinOr(bl, ";", "_")
	}
	return joinOr(parts, "/", "_")
}

// dBandsArg: decoder band descriptions in the format of ops_t2.ml dband_of_string.
func dBandsArg(dims [][2]int, positions [][][2]int) string {
	parts := make([]string, len(dims))
	for i, d := range dims {
		var fl []int
		if i < len(positions) {
			for _, p := range positions[i] {
				fl = append(fl, p[0], p[1])
			}
		}
		parts[i] = fmt.Sprintf("%d,%d:%s", d[0], d[1], Ints(fl))
	}
	return joinOr(parts, "|", "_")
}

func suiteHeader(c *Ctx) {
	rng := c.Rng.Fork()
	refs := caseRefs(c, rng, c.N(1000, 15000), "t2:header:rt", "t2:header:enc", "t2:header:dec")
	n := len(refs)
	ParallelFor(n, c.Work, func(i int) {
		k := genHdrCase(NewRand(refs[i].GSeed), refs[i].I)
		r := NewRand(refs[i].GSeed ^ 0x5bd1e995)
		arg := bandsArg(k.Bands)
		nblocks := 0
		dist := []string{fmt.Sprintf("hdr.bands.%d", len(k.Bands)), fmt.Sprintf("hdr.termall.%v", k.TermAll)}
		rtok := !k.Weird
		flags := map[string]bool{}
		for bi := range k.Bands {
			if len(k.Bands[bi].Blocks) == 0 {
				flags["empty_band"] = true
			}
			for _, b := range k.Bands[bi].Blocks {
				nblocks++
				rtok = rtok && b.rtOK()
				if b.Single {
					flags["hdr.single_layer_fallback_block"] = true
				}
				if len(b.Passes) > 0 {
					flags["hdr.block_with_cb_passes"] = true
					for pi, p := range b.Passes {
						if p[2] != 0 && pi+1 < len(b.Passes) {
							flags["hdr.terminated_pass_no_termall"] = true
						}
					}
				}
				if !b.Single {
					if b.First >= 2 && b.First < k.L {
						flags["late_inclusion"] = true
					}
					if b.First >= k.L {
						flags["never_included"] = true
					}
					prev := 0
					for l, lp := range b.LayerPasses {
						if lp > prev && len(b.LayerData[l]) == 0 {
							flags["zero_len"] = true
						}
						if lp == prev && l > b.First {
							flags["zero_new_passes"] = true
						}
						if len(b.LayerData[l]) >= 65535 {
							flags["hdr.len_ge_65535"] = true
						}
						prev = lp
					}
				}
			}
		}
		for f := range flags {
			dist = append(dist, f)
		}
		if k.Weird {
			dist = append(dist, "hdr.weird_layer_sequence")
		}
		if k.L >= 999 {
			dist = append(dist, "hdr.layers_ge_999")
		}
		key := fmt.Sprintf("hdr:%s:%s", Ints(k.Layers), arg)
		if len(key) > 300 {
			key = fmt.Sprintf("hdr:%d:%x", len(key), refs[i].GSeed)
		}
		c.R.Case(key, nblocks >= 2 && k.L >= 2, dist...)
		if i < 2 {
			c.R.Sample(map[string]interface{}{"suite": "t2:header", "layers": k.Layers, "termAll": k.TermAll, "bands": arg})
		}
		in := map[string]interface{}{"gseed": refs[i].GSeed, "i": refs[i].I, "layers": Ints(k.Layers), "bands": clipArg(arg), "termAll": k.TermAll}

		// ---- encoder, layer by layer on the same Precinct objects
		precincts := make([]*t2.Precinct, len(k.Bands))
		for bi := range k.Bands {
			precincts[bi] = k.Bands[bi].goPrecinct()
		}
		type encLayer struct {
			hdr   []byte
			incls []t2.CodeBlockIncl
		}
		var encs []encLayer
		var implParts []string
		endsFF := false
		for _, l := range k.Layers {
			var hdr []byte
			var incls []t2.CodeBlockIncl
			var err error
			if p, _ := Safely(func() { hdr, incls, err = t2.VerifEncodeHeaderMulti(precincts, l) }); p {
				implParts = append(implParts, "panic")
				break
			}
			if err != nil {
				implParts = append(implParts, "err")
				break
			}
			implParts = append(implParts, fmt.Sprintf("ok:%s|%s|%s", Hex(hdr), eInclsStr(incls), eStateStr(precincts)))
			encs = append(encs, encLayer{append([]byte{}, hdr...), incls})
			if len(hdr) >= 2 && hdr[len(hdr)-2] == 0xFF {
				endsFF = true
			}
		}
		if endsFF {
			c.R.Count("hdr_ends_ff")
		}
		c.CorrEq("t2:header:enc", "t2:header:enc", mcall(c, "t2_hdr_enc", Ints(k.Layers), arg), joinOr(implParts, "#", "_"), in)

		// ---- decoder on header ++ body ++ random tail, state persisting over the layers
		dims := make([][2]int, len(k.Bands))
		positions := make([][][2]int, len(k.Bands))
		for bi := range k.Bands {
			b := &k.Bands[bi]
			dims[bi] = [2]int{b.W, b.H}
			if len(b.Blocks) == 0 { // the decoder derives the grid from the blocks: none, no grid
				dims[bi] = [2]int{0, 0}
			}
			if !(k.FullPos && len(b.Blocks) == b.W*b.H) {
				for _, blk := range b.sortedBlocks() {
					positions[bi] = append(positions[bi], [2]int{blk.CBX, blk.CBY})
				}
			}
		}
		hb := t2.NewVerifHeaderBands(dims, positions)
		var steps, dparts []string
		type decLayer struct {
			pos     int
			present bool
			incls   []t2.CodeBlockIncl
		}
		var decs []decLayer
		for li, e := range encs {
			data := append([]byte{}, e.hdr...)
			for _, ci := range e.incls {
				if ci.Included {
					data = append(data, ci.Data...)
				}
			}
			data = append(data, noise(r, r.Range(0, 3))...)
			if len(data) > 600 { // the parser never looks past the header: keep the model argument small
				data = data[:min(len(data), max(len(e.hdr)+8, 600))]
			}
			layer := k.Layers[li]
			steps = append(steps, fmt.Sprintf("%d,%s,%s", layer, b01(k.TermAll), Hex(data)))
			var pos int
			var present bool
			var incls []t2.CodeBlockIncl
			var err error
			if p, msg := Safely(func() { pos, present, incls, err = hb.Parse(data, layer, k.TermAll) }); p {
				dparts = append(dparts, "panic")
				c.R.Fail("oracle", "t2:header:rt", "t2:header:panic", msg, in)
				break
			}
			if err != nil {
				dparts = append(dparts, "err")
				break
			}
			il := make([]string, len(incls))
			for j, ci := range incls {
				il[j] = dInclStr(ci)
			}
			dparts = append(dparts, fmt.Sprintf("ok:%d,%s|%s|%s", pos, b01(present), joinOr(il, ";", "_"), dStatesStr(hb.States())))
			decs = append(decs, decLayer{pos, present, incls})
		}
		if len(steps) > 0 {
			presets := strings.TrimSuffix(strings.Repeat("-|", len(dims)), "|")
			din := map[string]interface{}{"bands": dBandsArg(dims, positions), "steps": clipArg(strings.Join(steps, "#")), "enc": in}
			c.CorrEq("t2:header:dec", "t2:header:dec", mcall(c, "t2_hdr_dec", dBandsArg(dims, positions), presets, strings.Join(steps, "#")), joinOr(dparts, "#", "_"), din)
		}

		// ---- oracle (Go alone): decoding the layers in order returns what the encoder recorded
		if rtok {
			c.R.Oracle("t2:header:rt")
			bad := ""
			if len(decs) != len(k.Layers) || len(encs) != len(k.Layers) {
				bad = fmt.Sprintf("encoded %d, decoded %d of %d layers (%s)", len(encs), len(decs), len(k.Layers), joinOr(dparts[max(len(dparts)-1, 0):], "", ""))
			}
			for li := 0; bad == "" && li < len(decs); li++ {
				e, d := encs[li], decs[li]
				if d.pos != len(e.hdr) {
					bad = fmt.Sprintf("layer %d: bytesRead %d, header has %d bytes (%s)", li, d.pos, len(e.hdr), Hex(e.hdr))
					break
				}
				if d.present != (nblocks > 0) || len(d.incls) != len(e.incls) {
					bad = fmt.Sprintf("layer %d: present %v with %d entries, encoder wrote %d entries", li, d.present, len(d.incls), len(e.incls))
					break
				}
				for j := range e.incls {
					ei, di := e.incls[j], d.incls[j]
					switch {
					case ei.Included != di.Included:
						bad = fmt.Sprintf("layer %d block %d: included %v, encoder %v", li, j, di.Included, ei.Included)
					case !ei.Included:
					case ei.FirstInclusion != di.FirstInclusion:
						bad = fmt.Sprintf("layer %d block %d: first inclusion %v, encoder %v", li, j, di.FirstInclusion, ei.FirstInclusion)
					case ei.NumPasses != di.NumPasses:
						bad = fmt.Sprintf("layer %d block %d: passes %d, encoder %d", li, j, di.NumPasses, ei.NumPasses)
					case ei.DataLength != di.DataLength:
						bad = fmt.Sprintf("layer %d block %d: length %d, encoder %d", li, j, di.DataLength, ei.DataLength)
					case k.TermAll && ei.UseTERMALL && Ints(cumsum(di.PassLengths)) != Ints(ei.PassLengths):
						bad = fmt.Sprintf("layer %d block %d: pass lengths %v, encoder %v", li, j, di.PassLengths, ei.PassLengths)
					}
					if bad != "" {
						break
					}
				}
			}
			// zero-bit-planes: by position
			if bad == "" {
				bad = checkZbp(k, encsIncls(len(decs), func(i int) []t2.CodeBlockIncl { return decs[i].incls }))
			}
			if bad != "" {
				c.R.Fail("oracle", "t2:header:rt", "t2:header:rt:"+strings.SplitN(bad, " ", 2)[0], bad, in)
			}
		}
	})
}

func encsIncls(n int, f func(int) []t2.CodeBlockIncl) [][]t2.CodeBlockIncl {
	out := make([][]t2.CodeBlockIncl, n)
	for i := range out {
		out[i] = f(i)
	}
	return out
}

// checkZbp: every included entry reports the block's ZeroBitPlanes (header order = bands in
// order, blocks by (CBY, CBX)).
func checkZbp(k hdrCase, layers [][]t2.CodeBlockIncl) string {
	var order []*blkSpec
	for bi := range k.Bands {
		order = append(order, k.Bands[bi].sortedBlocks()...)
	}
	for li, incls := range layers {
		for j, ci := range incls {
			if j < len(order) && ci.Included && ci.ZeroBitplanes != order[j].Zbp {
				return fmt.Sprintf("zbp: layer %d block %d: zero bit-planes %d, encoder %d", li, j, ci.ZeroBitplanes, order[j].Zbp)
			}
		}
	}
	return ""
}

// cumsum: per-pass lengths -> cumulative lengths (the encoder records CodeBlockIncl.PassLengths
// cumulative within the layer, the parser per pass).
func cumsum(l []int) []int {
	out := make([]int, len(l))
	t := 0
	for i, v := range l {
		t += v
		out[i] = t
	}
	return out
}

// clipArg keeps failure inputs readable; the case is regenerated from (gseed, i) on replay.
func clipArg(s string) string {
	if len(s) > 1500 {
		return s[:1500] + fmt.Sprintf("...(%d chars)", len(s))
	}
	return s
}
