//go:build verif

package t2s

import (
	"fmt"
	"sync"

	"github.com/cocosip/go-dicom-codecs/jpeg2000/t2"
	. "verif/harness/vhlib"
)

// ---------------------------------------------------------------------------------------
// t2:bio — bioWriter / bioReader

type bioCase struct {
	Vals [][2]int // (value, n)
	Kind string
}

func genBioCase(r *Rand, i int) bioCase {
	k := bioCase{}
	switch i % 8 {
	case 0: // all-ones runs: 0xFF bytes inside and at the very end
		k.Kind = "ones"
		if r.Intn(3) == 0 {
			k.Vals = append(k.Vals, [2]int{r.Intn(1 << 12), r.Range(0, 12)})
		}
		for n := r.Range(1, 5); n > 0; n-- {
			w := r.Pick(1, 7, 8, 8, 15, 16, 23, 32)
			k.Vals = append(k.Vals, [2]int{-1, w})
			if r.Intn(3) == 0 {
				k.Vals = append(k.Vals, [2]int{0, r.Range(0, 2)})
			}
		}
	case 1: // exactly filling the last byte with ones (after stuffing: 8, 15, 22, 29 ... bits)
		k.Kind = "ff_end_exact"
		total := 8 + 7*r.Range(0, 5)
		if r.Bool() { // a non-FF prefix byte first
			k.Vals = append(k.Vals, [2]int{r.Intn(255), 8})
			total = 8 + 7*r.Range(0, 3)
		}
		for total > 0 {
			w := r.Range(1, 9)
			if w > total {
				w = total
			}
			k.Vals = append(k.Vals, [2]int{(1 << w) - 1, w})
			total -= w
		}
	case 2: // boundary widths
		k.Kind = "widths"
		for n := r.Range(1, 8); n > 0; n-- {
			w := r.Pick(0, 1, 31, 32, 32, 16, 8)
			v := int(r.U64() & 0xFFFFFFFF)
			if r.Intn(4) == 0 {
				v = -r.Intn(1 << 20)
			}
			k.Vals = append(k.Vals, [2]int{v, w})
		}
	case 3: // values wider than n, negative values
		k.Kind = "wide_values"
		for n := r.Range(1, 10); n > 0; n-- {
			v := int(r.U64()>>20) - (1 << 42)
			k.Vals = append(k.Vals, [2]int{v, r.Range(0, 32)})
		}
	case 4:
		k.Kind = "empty"
		for n := r.Range(0, 3); n > 0; n-- {
			k.Vals = append(k.Vals, [2]int{r.Intn(100), 0})
		}
	default:
		k.Kind = "random"
		for n := r.Range(1, 24); n > 0; n-- {
			w := r.Range(0, 32)
			if r.Intn(3) == 0 {
				w = r.Range(1, 9)
			}
			v := int(r.U64() & ((1 << uint(w)) - 1))
			if r.Intn(6) == 0 {
				v = (1 << uint(w)) - 1
			}
			k.Vals = append(k.Vals, [2]int{v, w})
		}
	}
	return k
}

func flat2(v [][2]int) string {
	var fl []int
	for _, p := range v {
		fl = append(fl, p[0], p[1])
	}
	return Ints(fl)
}

func bioReadStr(data []byte, ns []int) string {
	vals, pos, failed := t2.VerifBioRead(data, ns)
	if failed {
		return "err"
	}
	return fmt.Sprintf("ok:%s|%d", Ints(vals), pos)
}

func suiteBio(c *Ctx) {
	rng := c.Rng.Fork()
	n := c.N(3000, 40000)
	cases := make([]bioCase, n)
	seeds := make([]uint64, n)
	for i := range cases {
		cases[i] = genBioCase(rng, i)
		seeds[i] = rng.U64()
	}
	var emptyOnce sync.Once
	ParallelFor(n, c.Work, func(i int) {
		k := cases[i]
		r := NewRand(seeds[i])
		out := t2.VerifBioWrite(k.Vals)
		totalBits := 0
		var ns []int
		allReadable := true
		for _, p := range k.Vals {
			totalBits += p[1]
			ns = append(ns, p[1])
			if p[1] < 1 {
				allReadable = false
			}
		}
		dist := []string{"bio.kind." + k.Kind}
		if len(out) >= 2 && out[len(out)-2] == 0xFF && out[len(out)-1] == 0 {
			dist = append(dist, "bio.ends_ff_stuffed")
		}
		for _, b := range out {
			if b == 0xFF {
				dist = append(dist, "bio.has_ff")
				break
			}
		}
		arg := flat2(k.Vals)
		c.R.Case("bio:"+arg, len(k.Vals) >= 2, dist...)
		if i < 2 {
			c.R.Sample(map[string]interface{}{"suite": "t2:bio", "vals": k.Vals, "bytes": Hex(out)})
		}
		c.CorrEq("t2:bio:write", "t2:bio:write", c.M.Call("t2_bio_write", arg), Hex(out), k.Vals)

		// reader (a): the writer's own output followed by random trailing bytes
		tail := noise(r, r.Range(0, 4))
		data := append(append([]byte{}, out...), tail...)
		in := map[string]interface{}{"data": Hex(data), "ns": ns}
		c.CorrEq("t2:bio:read", "t2:bio:read:own", c.M.Call("t2_bio_read", Hex(data), Ints(ns)), bioReadStr(data, ns), in)

		// oracle: write/read round trip
		if allReadable && totalBits > 0 {
			c.R.Oracle("t2:bio:rt")
			for _, d := range [][]byte{out, data} {
				vals, pos, failed := t2.VerifBioRead(d, ns)
				bad := ""
				if failed {
					bad = "reader failed on the writer's output"
				} else if pos != len(out) {
					bad = fmt.Sprintf("bytesRead %d, writer produced %d bytes", pos, len(out))
				} else {
					for j, p := range k.Vals {
						want := p[0] & ((1 << uint(p[1])) - 1)
						if vals[j] != want {
							bad = fmt.Sprintf("value %d: wrote %d (%d bits), read %d", j, want, p[1], vals[j])
							break
						}
					}
				}
				if bad != "" {
					c.R.Fail("oracle", "t2:bio:rt", "t2:bio:rt:"+k.Kind, bad, map[string]interface{}{"vals": k.Vals, "data": Hex(d)})
					break
				}
			}
		} else if totalBits == 0 {
			_, pos, _ := t2.VerifBioRead(out, nil)
			if pos != len(out) {
				emptyOnce.Do(func() {
					c.R.Note("t2:bio: with zero bits written flush emits %d byte(s) (%s) and the reader's alignToByte consumes %d: the empty header is outside the round-trip statement", len(out), Hex(out), pos)
				})
			}
		}

		// reader (b): random bytes with many FF, random widths incl. n outside 1..32
		rb := noise(r, r.Range(0, 12))
		var rns []int
		for m := r.Range(0, 10); m > 0; m-- {
			w := r.Range(1, 32)
			switch r.Intn(12) {
			case 0:
				w = r.Pick(0, -1, 33, 64, -5)
			case 1, 2:
				w = r.Range(1, 8)
			}
			rns = append(rns, w)
		}
		in = map[string]interface{}{"data": Hex(rb), "ns": rns}
		c.CorrEq("t2:bio:read", "t2:bio:read:random", c.M.Call("t2_bio_read", Hex(rb), Ints(rns)), bioReadStr(rb, rns), in)

		// reader (c): truncated writer output
		if len(out) > 0 {
			tr := out[:r.Intn(len(out))]
			in = map[string]interface{}{"data": Hex(tr), "ns": ns}
			c.CorrEq("t2:bio:read", "t2:bio:read:truncated", c.M.Call("t2_bio_read", Hex(tr), Ints(ns)), bioReadStr(tr, ns), in)
		}
	})
}
