package main

import (
	"fmt"
	"go/ast"
	"go/constant"
	"go/token"
)

// HTJ2K tables (jpeg2000/htj2k) and the OpenJPH BIBO gain tables (jpeg2000/quantization.go).
//
// Everything here comes from the AST of the current sources:
//   - MelE[13]                      package-level composite literal (mel_spec.go)
//   - VLCTbl0 / VLCTbl1             package-level []VLCEntry literals, 7 ints per entry
//                                   (c_q, rho, u_off, e_k, e_1, cwd, cwd_len) (vlc_tables.go)
//   - dec[8]                        LOCAL composite literal inside generateUVLCTables()
//                                   (uvlc_tables.go); the 320+256+320 entries of UVLCTbl0/UVLCTbl1/
//                                   UVLCBias are built from it at init() time, so they are not
//                                   AST-evaluable: the generator loop is transliterated in
//                                   coq/HT/HtUvlc.v (uvlc_gen_*) and the result is compared with the
//                                   exported run-time arrays over the whole index range by the
//                                   harness (suite ht, "uvlc_tables").
//   - openJPH53LowBIBO/HighBIBO     []float64 literals, emitted as exact integers x 10^4
//     openJPH97LowGain/HighGain     (the decimal literals have at most 4 fractional digits; the
//                                   generator fails if one does not scale to an integer)
//
// The 1024-entry decode tables VLCLookupTable0/1 (InitVLCTables) and the 2048-entry encoder
// tables ojphEncoderVLCTable0/1 (initOJPHEncoderVLCTable, unexported) are likewise built at
// init() from VLCTbl0/1; their generators are transliterated in coq/HT/HtVlc.v and the decode
// tables are compared with the exported arrays by the harness ("vlc_tables").
func init() {
	register("ht", func() error {
		p, err := loadPkg("jpeg2000/htj2k")
		if err != nil {
			return err
		}
		out := genHeader
		mel, err := p.intTable("MelE")
		if err != nil {
			return err
		}
		if len(mel) != 13 {
			return fmt.Errorf("MelE has %d entries, expected 13", len(mel))
		}
		out += coqZList("ht_mel_e", mel)
		for _, t := range []struct{ goName, coqName string }{{"VLCTbl0", "ht_vlc_src0"}, {"VLCTbl1", "ht_vlc_src1"}} {
			xs, err := p.intTable(t.goName)
			if err != nil {
				return err
			}
			if len(xs) == 0 || len(xs)%7 != 0 {
				return fmt.Errorf("%s flattens to %d integers, expected a positive multiple of 7", t.goName, len(xs))
			}
			out += fmt.Sprintf("(* %s: %d entries x (c_q, rho, u_off, e_k, e_1, cwd, cwd_len) *)\n", t.goName, len(xs)/7)
			out += coqZList(t.coqName, xs)
		}
		dec, err := p.localIntTable("generateUVLCTables", "dec")
		if err != nil {
			return err
		}
		if len(dec) != 8 {
			return fmt.Errorf("generateUVLCTables.dec has %d entries, expected 8", len(dec))
		}
		out += coqZList("ht_uvlc_dec", dec)

		q, err := loadPkg("jpeg2000")
		if err != nil {
			return err
		}
		for _, t := range []struct {
			goName, coqName string
			n               int
		}{{"openJPH53LowBIBO", "ht_bibo53_low_e4", 7}, {"openJPH53HighBIBO", "ht_bibo53_high_e4", 6},
			{"openJPH97LowGain", "ht_gain97_low_e4", 7}, {"openJPH97HighGain", "ht_gain97_high_e4", 6}} {
			xs, err := q.scaledTable(t.goName, 10000)
			if err != nil {
				return err
			}
			if len(xs) != t.n {
				return fmt.Errorf("%s has %d entries, expected %d", t.goName, len(xs), t.n)
			}
			out += coqZList(t.coqName, xs)
		}
		writeIfChanged("HtTables_gen.v", []byte(out))
		return nil
	})
}

// localIntTable evaluates the composite literal assigned (:= or var) to the local variable
// `name` inside the package-level function `fn`.
func (p *Pkg) localIntTable(fn, name string) ([]int64, error) {
	for _, f := range p.Files {
		for _, d := range f.Decls {
			fd, ok := d.(*ast.FuncDecl)
			if !ok || fd.Recv != nil || fd.Name.Name != fn || fd.Body == nil {
				continue
			}
			var lit ast.Expr
			ast.Inspect(fd.Body, func(n ast.Node) bool {
				if lit != nil {
					return false
				}
				switch s := n.(type) {
				case *ast.AssignStmt:
					for i, l := range s.Lhs {
						if id, ok := l.(*ast.Ident); ok && id.Name == name && i < len(s.Rhs) {
							if _, ok := s.Rhs[i].(*ast.CompositeLit); ok {
								lit = s.Rhs[i]
							}
						}
					}
				case *ast.ValueSpec:
					for i, id := range s.Names {
						if id.Name == name && i < len(s.Values) {
							if _, ok := s.Values[i].(*ast.CompositeLit); ok {
								lit = s.Values[i]
							}
						}
					}
				}
				return true
			})
			if lit == nil {
				return nil, fmt.Errorf("%s.%s: no composite literal assigned to local %s", p.Dir, fn, name)
			}
			var out []int64
			if err := p.flatten(lit, &out); err != nil {
				return nil, fmt.Errorf("%s.%s.%s: %v", p.Dir, fn, name, err)
			}
			return out, nil
		}
	}
	return nil, fmt.Errorf("package %s: function %s not found", p.Dir, fn)
}

// scaledTable evaluates a flat composite literal of numeric constants exactly (go/constant keeps
// decimal literals as rationals) and returns value*scale, failing if that is not an integer.
func (p *Pkg) scaledTable(name string, scale int64) ([]int64, error) {
	e := p.findVarValue(name)
	if e == nil {
		return nil, fmt.Errorf("package %s: variable %s not found", p.Dir, name)
	}
	cl, ok := e.(*ast.CompositeLit)
	if !ok {
		return nil, fmt.Errorf("%s.%s: not a composite literal", p.Dir, name)
	}
	var out []int64
	for _, el := range cl.Elts {
		if _, keyed := el.(*ast.KeyValueExpr); keyed {
			return nil, fmt.Errorf("%s.%s: keyed element not supported", p.Dir, name)
		}
		tv, ok := p.Info.Types[el]
		if !ok || tv.Value == nil {
			return nil, fmt.Errorf("%s: not a constant", p.Fset.Position(el.Pos()))
		}
		// re-read the literal text when available: the type checker rounds an untyped constant
		// converted to float64, the source text is exact
		v := tv.Value
		if bl, ok := el.(*ast.BasicLit); ok && (bl.Kind == token.FLOAT || bl.Kind == token.INT) {
			v = constant.MakeFromLiteral(bl.Value, bl.Kind, 0)
		}
		s := constant.BinaryOp(v, token.MUL, constant.MakeInt64(scale))
		i := constant.ToInt(s)
		if i.Kind() != constant.Int {
			return nil, fmt.Errorf("%s: %s * %d is not an integer", p.Fset.Position(el.Pos()), v.ExactString(), scale)
		}
		x, exact := constant.Int64Val(i)
		if !exact {
			return nil, fmt.Errorf("%s: out of range", p.Fset.Position(el.Pos()))
		}
		out = append(out, x)
	}
	return out, nil
}
