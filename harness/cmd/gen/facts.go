package main

func genFacts() {}
