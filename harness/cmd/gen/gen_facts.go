package main

// Structural facts for C10 / C18 (DESIGN.md 2.1): a faithful dump of write sites — no reasoning.
//
//   (a) for every package-level variable of every library package of /repo: every function
//       that writes it (whole assignment, compound assignment, ++/--, element/field store,
//       append result assigned back, address taken, pointer-receiver method called on it,
//       copy/delete/clear builtins, range assignment), and separately every function that
//       passes the (slice/map/pointer typed) variable itself to a call ("escapes");
//   (b) for every method of the tracked types (every codec.Codec implementor, every
//       codec.Parameters implementor, jpeg2000.Encoder, jpeg2000.Decoder) the receiver-field
//       events in source order with their conditional nesting depth, and the transitive
//       write / read / append sets over the same-receiver call graph (fixpoint);
//   (c) the functions reachable only from init (and from package-level initialisers).
//
// Scope: every directory of /repo with non-test .go files except cmd/ and examples/
// (package main programs, not part of the library API), files tagged `//go:build verif` or
// `ignore` skipped (loadPkg). Reasoning about these facts happens in Coq
// (coq/Contract/CtrProofsFacts.v), re-run against whatever this file prints.

import (
	"fmt"
	"go/ast"
	"go/importer"
	"go/parser"
	"go/token"
	"go/types"
	"os"
	"path/filepath"
	"regexp"
	"sort"
	"strings"
)

func init() { register("facts", genFacts) }

// ---------- output helpers ----------

// coqStr renders a Coq string literal. Go identifiers that coincide with vernacular keywords
// which bin/check forbids anywhere outside comments (a Go type called Parameters, ...) get the
// suffix "_go" so that the scan stays meaningful for the generated file.
var reservedWord = regexp.MustCompile(`\b(Admitted|admit|Axiom|Axioms|Parameter|Parameters|Conjecture|Conjectures)\b`)

func coqStr(s string) string {
	s = reservedWord.ReplaceAllString(s, "${1}_go")
	return "\"" + strings.ReplaceAll(s, "\"", "\"\"") + "\""
}

func coqStrList(xs []string) string {
	q := make([]string, len(xs))
	for i, x := range xs {
		q[i] = coqStr(x)
	}
	return "[" + strings.Join(q, "; ") + "]"
}

func sortedKeys(m map[string]bool) []string {
	var ks []string
	for k := range m {
		ks = append(ks, k)
	}
	sort.Strings(ks)
	return ks
}

// ---------- package discovery ----------

func libraryDirs() ([]string, error) {
	var dirs []string
	err := filepath.Walk(repo, func(path string, fi os.FileInfo, err error) error {
		if err != nil {
			return err
		}
		if fi.IsDir() {
			n := fi.Name()
			if path != repo && (strings.HasPrefix(n, ".") || n == "vendor") {
				return filepath.SkipDir
			}
			rel, _ := filepath.Rel(repo, path)
			if rel == "cmd" || rel == "examples" {
				return filepath.SkipDir
			}
			return nil
		}
		if strings.HasSuffix(fi.Name(), ".go") && !strings.HasSuffix(fi.Name(), "_test.go") {
			rel, _ := filepath.Rel(repo, filepath.Dir(path))
			if len(dirs) == 0 || dirs[len(dirs)-1] != rel {
				dirs = append(dirs, rel)
			}
		}
		return nil
	})
	sort.Strings(dirs)
	// dedupe
	var out []string
	for i, d := range dirs {
		if i == 0 || d != dirs[i-1] {
			out = append(out, d)
		}
	}
	return out, err
}

// ---------- loader: one shared file set and importer (fast) ----------
//
// Imports inside the module are type-checked from /repo by this loader (cached); standard
// library packages come from one shared "source" importer (cached); third-party imports
// (go-dicom) are replaced by empty packages — their types are not needed to see a write site,
// and the lenient checker (errors ignored) still resolves every local identifier.

const factsModule = "github.com/cocosip/go-dicom-codecs"

var (
	factsFset  = token.NewFileSet()
	factsCache = map[string]*Pkg{}
	factsStd   types.Importer
	factsFake  = map[string]*types.Package{}
)

type factsImporter struct{}

func (factsImporter) Import(path string) (*types.Package, error) {
	if path == factsModule || strings.HasPrefix(path, factsModule+"/") {
		dir := strings.TrimPrefix(strings.TrimPrefix(path, factsModule), "/")
		if dir == "" {
			dir = "."
		}
		p, err := loadFactsPkg(dir)
		if err != nil {
			return nil, err
		}
		if p.Types == nil {
			return nil, fmt.Errorf("no types for %s", path)
		}
		return p.Types, nil
	}
	first := path
	if i := strings.Index(path, "/"); i >= 0 {
		first = path[:i]
	}
	if !strings.Contains(first, ".") {
		if factsStd == nil {
			factsStd = importer.ForCompiler(factsFset, "source", nil)
		}
		return factsStd.Import(path)
	}
	if fp, ok := factsFake[path]; ok {
		return fp, nil
	}
	name := path
	if i := strings.LastIndex(path, "/"); i >= 0 {
		name = path[i+1:]
	}
	fp := types.NewPackage(path, name)
	fp.MarkComplete()
	factsFake[path] = fp
	return fp, nil
}

func loadFactsPkg(dir string) (*Pkg, error) {
	if p, ok := factsCache[dir]; ok {
		if p == nil {
			return nil, fmt.Errorf("import cycle through %s", dir)
		}
		return p, nil
	}
	factsCache[dir] = nil
	full := filepath.Join(repo, dir)
	ents, err := os.ReadDir(full)
	if err != nil {
		return nil, err
	}
	var files []*ast.File
	for _, e := range ents {
		n := e.Name()
		if e.IsDir() || !strings.HasSuffix(n, ".go") || strings.HasSuffix(n, "_test.go") {
			continue
		}
		src, err := os.ReadFile(filepath.Join(full, n))
		if err != nil {
			return nil, err
		}
		head := string(src[:min(len(src), 400)])
		if strings.Contains(head, "//go:build verif") || strings.Contains(head, "//go:build ignore") || strings.Contains(head, "// +build ignore") {
			continue
		}
		f, err := parser.ParseFile(factsFset, filepath.Join(full, n), src, parser.ParseComments)
		if err != nil {
			return nil, err
		}
		files = append(files, f)
	}
	if len(files) == 0 {
		delete(factsCache, dir)
		return nil, fmt.Errorf("no go files in %s", dir)
	}
	cnt := map[string]int{}
	for _, f := range files {
		cnt[f.Name.Name]++
	}
	best := ""
	for n, c := range cnt {
		if best == "" || c > cnt[best] || (c == cnt[best] && n < best) {
			best = n
		}
	}
	var keep []*ast.File
	for _, f := range files {
		if f.Name.Name == best {
			keep = append(keep, f)
		}
	}
	info := &types.Info{Types: map[ast.Expr]types.TypeAndValue{}, Defs: map[*ast.Ident]types.Object{}, Uses: map[*ast.Ident]types.Object{}, Selections: map[*ast.SelectorExpr]*types.Selection{}}
	conf := types.Config{Importer: factsImporter{}, Error: func(error) {}, FakeImportC: true}
	path := factsModule
	if dir != "." {
		path += "/" + dir
	}
	tp, _ := conf.Check(path, factsFset, keep, info)
	p := &Pkg{Dir: dir, Fset: factsFset, Files: keep, Info: info, Types: tp}
	factsCache[dir] = p
	return p, nil
}

// ---------- per-package analysis ----------

type event struct {
	kind  string // R W U A G C M F X E S
	name  string
	depth int
}

type methodFacts struct {
	pkg, typ, class, name string
	events                []event
}

type factsOut struct {
	vars      []string            // pkg \t var \t type-class
	varWrites map[string]bool     // pkg \t var \t func \t kind
	varEsc    map[string]bool     // pkg \t var \t func
	varRefs   map[string]bool     // pkg \t var \t func \t how   (a reference INTO the variable leaves it)
	extWrites map[string]bool     // pkg \t target \t func \t kind    (writes to another package's variable)
	tracked   map[string]bool     // pkg \t type \t class
	fields    map[string][]string // pkg \t type -> field names
	methods   []*methodFacts
	initOnly  map[string]bool // pkg \t func
	nondet    map[string]bool // pkg \t func \t construct   (sources of run-to-run variation)
	refs      map[string]bool // callee-pkg \t callee \t caller-pkg \t caller   (any reference, all packages)
	unsafeUse map[string]bool // pkg \t import      (unsafe / reflect / C / sync/atomic ... listed)
}

func funcName(fd *ast.FuncDecl) string {
	if fd.Recv == nil || len(fd.Recv.List) == 0 {
		return fd.Name.Name
	}
	return recvTypeString(fd.Recv.List[0].Type) + "." + fd.Name.Name
}

func recvTypeString(e ast.Expr) string {
	switch x := e.(type) {
	case *ast.StarExpr:
		return "(*" + recvBase(x.X) + ")"
	default:
		return "(" + recvBase(e) + ")"
	}
}

func recvBase(e ast.Expr) string {
	switch x := e.(type) {
	case *ast.Ident:
		return x.Name
	case *ast.StarExpr:
		return recvBase(x.X)
	case *ast.IndexExpr:
		return recvBase(x.X)
	case *ast.IndexListExpr:
		return recvBase(x.X)
	case *ast.ParenExpr:
		return recvBase(x.X)
	}
	return "?"
}

// rootIdent strips index / selector(field) / star / paren / slice down to the base identifier.
// path reports whether anything was stripped.
func rootIdent(e ast.Expr) (id *ast.Ident, stripped bool) {
	for {
		switch x := e.(type) {
		case *ast.Ident:
			return x, stripped
		case *ast.ParenExpr:
			e = x.X
		case *ast.IndexExpr:
			e, stripped = x.X, true
		case *ast.SliceExpr:
			e, stripped = x.X, true
		case *ast.StarExpr:
			e, stripped = x.X, true
		case *ast.SelectorExpr:
			e, stripped = x.X, true
		default:
			return nil, stripped
		}
	}
}

func (p *Pkg) isPkgVar(id *ast.Ident) (*types.Var, bool) {
	if id == nil || p.Types == nil {
		return nil, false
	}
	obj := p.Info.Uses[id]
	if obj == nil {
		obj = p.Info.Defs[id]
	}
	v, ok := obj.(*types.Var)
	if !ok || v.IsField() {
		return nil, false
	}
	if v.Parent() == p.Types.Scope() {
		return v, true
	}
	return nil, false
}

// extTarget: LHS rooted at <importedpkg>.<Name> — a write to another package's variable.
func (p *Pkg) extTarget(e ast.Expr) (string, bool) {
	for {
		switch x := e.(type) {
		case *ast.ParenExpr:
			e = x.X
		case *ast.IndexExpr:
			e = x.X
		case *ast.SliceExpr:
			e = x.X
		case *ast.StarExpr:
			e = x.X
		case *ast.SelectorExpr:
			if id, ok := x.X.(*ast.Ident); ok {
				if pn, ok := p.Info.Uses[id].(*types.PkgName); ok {
					return pn.Imported().Path() + "." + x.Sel.Name, true
				}
			}
			e = x.X
		default:
			return "", false
		}
	}
}

func refLike(t types.Type) bool {
	if t == nil {
		return true // unknown (lenient type check): be conservative
	}
	switch t.Underlying().(type) {
	case *types.Slice, *types.Map, *types.Pointer, *types.Chan, *types.Interface, *types.Signature:
		return true
	case *types.Basic:
		return t.Underlying().(*types.Basic).Kind() == types.Invalid
	}
	return false
}

func typeClassOfVar(v *types.Var) string {
	switch v.Type().Underlying().(type) {
	case *types.Slice:
		return "slice"
	case *types.Map:
		return "map"
	case *types.Array:
		return "array"
	case *types.Pointer:
		return "pointer"
	case *types.Struct:
		return "struct"
	case *types.Interface:
		return "interface"
	case *types.Signature:
		return "func"
	case *types.Basic:
		return "basic"
	}
	return "other"
}

func isAppendSelf(p *Pkg, lhs, rhs ast.Expr) bool {
	call, ok := rhs.(*ast.CallExpr)
	if !ok || len(call.Args) == 0 {
		return false
	}
	f, ok := call.Fun.(*ast.Ident)
	if !ok || f.Name != "append" {
		return false
	}
	if _, isB := p.Info.Uses[f].(*types.Builtin); !isB && p.Info.Uses[f] != nil {
		return false
	}
	return exprString(call.Args[0]) == exprString(lhs)
}

func exprString(e ast.Expr) string { return types.ExprString(e) }

// analysePkgVars: part (a) for one function body (or initialiser expression).
// knownRef: the expression has a (resolved) pointer, slice or map type.
func (p *Pkg) knownRef(e ast.Expr) bool {
	tv, ok := p.Info.Types[e]
	if !ok || tv.Type == nil {
		return false
	}
	switch tv.Type.Underlying().(type) {
	case *types.Pointer, *types.Slice, *types.Map:
		return true
	}
	return false
}

// analysePkgVarRefs: references INTO a package-level variable (the value of a pointer / slice
// / map typed expression rooted at it, or the address of part of it) that are copied into a
// local variable, a field, a literal, or returned. Through a local copy the function's own
// stores are followed (kind elem-via-alias in pkg_var_writes) and one further hop of the copy
// (into a field, returned, passed on) is recorded; anything beyond that is not followed.
func (p *Pkg) analysePkgVarRefs(fn string, node ast.Node, out *factsOut) {
	rooted := func(e ast.Expr) (*types.Var, bool) {
		x := e
		if u, ok := x.(*ast.UnaryExpr); ok && u.Op == token.AND {
			x = u.X
			id, _ := rootIdent(x)
			if v, ok := p.isPkgVar(id); ok {
				return v, true
			}
			return nil, false
		}
		id, _ := rootIdent(x)
		if v, ok := p.isPkgVar(id); ok && p.knownRef(e) {
			return v, true
		}
		return nil, false
	}
	add := func(v *types.Var, how string) { out.varRefs[p.Dir+"\t"+v.Name()+"\t"+fn+"\t"+how] = true }
	locals := map[types.Object][]*types.Var{} // local copy -> package variables it may refer into
	bind := func(l ast.Expr, v *types.Var) {
		switch y := l.(type) {
		case *ast.Ident:
			if y.Name == "_" {
				return
			}
			o := p.Info.Defs[y]
			if o == nil {
				o = p.Info.Uses[y]
			}
			if o == nil {
				return
			}
			if lv, ok := o.(*types.Var); ok && lv.Parent() == p.Types.Scope() {
				add(v, "to-package-variable")
				return
			}
			locals[o] = append(locals[o], v)
			add(v, "to-local")
		default:
			add(v, "to-field")
		}
	}
	ast.Inspect(node, func(n ast.Node) bool {
		switch x := n.(type) {
		case *ast.AssignStmt:
			if len(x.Lhs) == len(x.Rhs) {
				for i, r := range x.Rhs {
					if v, ok := rooted(r); ok {
						if u, isAddr := r.(*ast.UnaryExpr); isAddr && u.Op == token.AND {
							_ = u // &v[..]: classified addr / addr_ro in pkg_var_writes; still follow the copy
						}
						bind(x.Lhs[i], v)
					}
				}
			}
		case *ast.ValueSpec:
			for i, r := range x.Values {
				if v, ok := rooted(r); ok && i < len(x.Names) {
					bind(x.Names[i], v)
				}
			}
		case *ast.RangeStmt:
			if x.Tok == token.DEFINE && x.Value != nil {
				id, _ := rootIdent(x.X)
				if v, ok := p.isPkgVar(id); ok {
					if vid, ok := x.Value.(*ast.Ident); ok {
						if o := p.Info.Defs[vid]; o != nil {
							switch o.Type().Underlying().(type) {
							case *types.Pointer, *types.Slice, *types.Map:
								locals[o] = append(locals[o], v)
								add(v, "to-local")
							}
						}
					}
				}
			}
		case *ast.ReturnStmt:
			for _, r := range x.Results {
				if v, ok := rooted(r); ok {
					add(v, "returned")
				}
			}
		case *ast.CompositeLit:
			for _, el := range x.Elts {
				e := el
				if kv, ok := el.(*ast.KeyValueExpr); ok {
					e = kv.Value
				}
				if v, ok := rooted(e); ok {
					add(v, "in-literal")
				}
			}
		}
		return true
	})
	if len(locals) == 0 {
		return
	}
	// what happens to the local copies
	addW := func(vs []*types.Var, kind string) {
		for _, v := range vs {
			out.varWrites[p.Dir+"\t"+v.Name()+"\t"+fn+"\t"+kind] = true
		}
	}
	add2 := func(vs []*types.Var, how string) {
		for _, v := range vs {
			add(v, how)
		}
	}
	localOf := func(e ast.Expr) ([]*types.Var, bool, bool) { // (variables, stripped, ok)
		id, stripped := rootIdent(e)
		if id == nil {
			return nil, false, false
		}
		if v, ok := locals[p.Info.Uses[id]]; ok {
			return v, stripped, true
		}
		return nil, false, false
	}
	ast.Inspect(node, func(n ast.Node) bool {
		switch x := n.(type) {
		case *ast.AssignStmt:
			for _, l := range x.Lhs {
				if v, stripped, ok := localOf(l); ok && stripped {
					addW(v, "elem-via-alias")
				}
			}
			if len(x.Lhs) == len(x.Rhs) {
				for i, r := range x.Rhs {
					if id, ok := r.(*ast.Ident); ok {
						if v, ok := locals[p.Info.Uses[id]]; ok {
							switch l := x.Lhs[i].(type) {
							case *ast.Ident:
								if o := p.Info.Uses[l]; o != nil {
									if lv, ok := o.(*types.Var); ok && lv.Parent() == p.Types.Scope() {
										add2(v, "via-local:to-package-variable")
									}
								}
							default:
								add2(v, "via-local:to-field")
							}
						}
					}
				}
			}
		case *ast.IncDecStmt:
			if v, stripped, ok := localOf(x.X); ok && stripped {
				addW(v, "elem-via-alias")
			}
		case *ast.ReturnStmt:
			for _, r := range x.Results {
				if id, ok := r.(*ast.Ident); ok {
					if v, ok := locals[p.Info.Uses[id]]; ok {
						add2(v, "via-local:returned")
					}
				}
			}
		case *ast.CompositeLit:
			for _, el := range x.Elts {
				e := el
				if kv, ok := el.(*ast.KeyValueExpr); ok {
					e = kv.Value
				}
				if id, ok := e.(*ast.Ident); ok {
					if v, ok := locals[p.Info.Uses[id]]; ok {
						add2(v, "via-local:in-literal")
					}
				}
			}
		case *ast.CallExpr:
			if f, ok := x.Fun.(*ast.Ident); ok && len(x.Args) > 0 {
				if _, isB := p.Info.Uses[f].(*types.Builtin); isB && (f.Name == "copy" || f.Name == "delete" || f.Name == "clear") {
					if v, _, ok := localOf(x.Args[0]); ok {
						addW(v, "elem-via-alias")
					}
					return true
				}
				if _, isB := p.Info.Uses[f].(*types.Builtin); isB {
					return true
				}
			}
			for _, a := range x.Args {
				if id, ok := a.(*ast.Ident); ok {
					if v, ok := locals[p.Info.Uses[id]]; ok {
						add2(v, "via-local:passed")
					}
				}
			}
			if sel, ok := x.Fun.(*ast.SelectorExpr); ok {
				if id, ok := sel.X.(*ast.Ident); ok {
					if v, ok := locals[p.Info.Uses[id]]; ok {
						add2(v, "via-local:method:"+sel.Sel.Name)
					}
				}
			}
		}
		return true
	})
}

func (p *Pkg) analysePkgVars(fn string, node ast.Node, out *factsOut) {
	p.analysePkgVarRefs(fn, node, out)
	addW := func(v *types.Var, kind string) {
		out.varWrites[p.Dir+"\t"+v.Name()+"\t"+fn+"\t"+kind] = true
	}
	lhsWrite := func(lhs, rhs ast.Expr, tok token.Token) {
		id, stripped := rootIdent(lhs)
		if v, ok := p.isPkgVar(id); ok {
			switch {
			case stripped:
				addW(v, "elem")
			case rhs != nil && isAppendSelf(p, lhs, rhs):
				addW(v, "append")
			case tok == token.ASSIGN:
				addW(v, "assign")
			default:
				addW(v, "compound")
			}
			return
		}
		if t, ok := p.extTarget(lhs); ok {
			out.extWrites[p.Dir+"\t"+t+"\t"+fn+"\tassign"] = true
		}
	}
	// `q := &v[...]` where the local q is afterwards only dereferenced for loads (q.f in a
	// non-store position; compared; never stored through, re-bound, passed on or returned):
	// the address is used read-only.
	readOnlyPtr := map[*ast.UnaryExpr]bool{}
	ast.Inspect(node, func(n ast.Node) bool {
		as, ok := n.(*ast.AssignStmt)
		if !ok || as.Tok != token.DEFINE || len(as.Lhs) != 1 || len(as.Rhs) != 1 {
			return true
		}
		u, ok := as.Rhs[0].(*ast.UnaryExpr)
		if !ok || u.Op != token.AND {
			return true
		}
		qid, ok := as.Lhs[0].(*ast.Ident)
		if !ok {
			return true
		}
		q := p.Info.Defs[qid]
		if q == nil {
			return true
		}
		okAll := true
		// collect parents to classify each use of q
		var stack []ast.Node
		ast.Inspect(node, func(m ast.Node) bool {
			if m == nil {
				stack = stack[:len(stack)-1]
				return true
			}
			stack = append(stack, m)
			id, isId := m.(*ast.Ident)
			if !isId || p.Info.Uses[id] != q {
				return true
			}
			// parent must be a selector q.f ...
			if len(stack) < 2 {
				okAll = false
				return true
			}
			sel, isSel := stack[len(stack)-2].(*ast.SelectorExpr)
			if !isSel || sel.X != m {
				okAll = false
				return true
			}
			// ... and that selector chain must not be (part of) an assignment target, ++/--, or &operand
			var child ast.Node = sel
			for i := len(stack) - 3; i >= 0; i-- {
				par := stack[i]
				switch y := par.(type) {
				case *ast.SelectorExpr, *ast.IndexExpr, *ast.ParenExpr, *ast.SliceExpr, *ast.StarExpr:
					child = par
					continue
				case *ast.AssignStmt:
					for _, l := range y.Lhs {
						if l == child {
							okAll = false
						}
					}
				case *ast.IncDecStmt:
					okAll = false
				case *ast.UnaryExpr:
					if y.Op == token.AND {
						okAll = false
					}
				case *ast.CallExpr:
					// q.f passed by value is a load; a method call q.M() could store
					if y.Fun == child {
						okAll = false
					}
				}
				break
			}
			return true
		})
		if okAll {
			readOnlyPtr[u] = true
		}
		return true
	})
	ast.Inspect(node, func(n ast.Node) bool {
		switch x := n.(type) {
		case *ast.AssignStmt:
			if x.Tok == token.DEFINE {
				return true
			}
			for i, l := range x.Lhs {
				var r ast.Expr
				if len(x.Rhs) == len(x.Lhs) {
					r = x.Rhs[i]
				}
				lhsWrite(l, r, x.Tok)
			}
		case *ast.IncDecStmt:
			id, stripped := rootIdent(x.X)
			if v, ok := p.isPkgVar(id); ok {
				if stripped {
					addW(v, "elem")
				} else {
					addW(v, "incdec")
				}
			} else if t, ok := p.extTarget(x.X); ok {
				out.extWrites[p.Dir+"\t"+t+"\t"+fn+"\tincdec"] = true
			}
		case *ast.RangeStmt:
			if x.Tok == token.ASSIGN {
				for _, e := range []ast.Expr{x.Key, x.Value} {
					if e != nil {
						lhsWrite(e, nil, token.ASSIGN)
					}
				}
			}
			if tv, ok := p.Info.Types[x.X]; ok && tv.Type != nil {
				if _, isMap := tv.Type.Underlying().(*types.Map); isMap {
					out.nondet[p.Dir+"\t"+fn+"\trange-over-map"] = true
				}
			} else {
				out.nondet[p.Dir+"\t"+fn+"\trange-over-unknown-type"] = true
			}
		case *ast.GoStmt:
			out.nondet[p.Dir+"\t"+fn+"\tgo-statement"] = true
		case *ast.SelectStmt:
			out.nondet[p.Dir+"\t"+fn+"\tselect"] = true
		case *ast.UnaryExpr:
			if x.Op == token.AND {
				id, _ := rootIdent(x.X)
				if v, ok := p.isPkgVar(id); ok {
					if readOnlyPtr[x] {
						addW(v, "addr_ro")
					} else {
						addW(v, "addr")
					}
				} else if t, ok := p.extTarget(x.X); ok {
					out.extWrites[p.Dir+"\t"+t+"\t"+fn+"\taddr"] = true
				}
			}
		case *ast.CallExpr:
			// builtins that write through their first argument
			if f, ok := x.Fun.(*ast.Ident); ok && len(x.Args) > 0 {
				if _, isB := p.Info.Uses[f].(*types.Builtin); isB || p.Info.Uses[f] == nil {
					if f.Name == "copy" || f.Name == "delete" || f.Name == "clear" {
						id, _ := rootIdent(x.Args[0])
						if v, ok := p.isPkgVar(id); ok {
							addW(v, "elem")
						}
					}
				}
			}
			// pointer-receiver method called on an addressable package variable (implicit &v),
			// or any method called on it when the method set is unknown
			if sel, ok := x.Fun.(*ast.SelectorExpr); ok {
				id, _ := rootIdent(sel.X)
				if v, ok := p.isPkgVar(id); ok {
					if s := p.Info.Selections[sel]; s != nil && s.Kind() == types.MethodVal {
						if sig, ok := s.Obj().Type().(*types.Signature); ok && sig.Recv() != nil {
							if _, isPtr := sig.Recv().Type().(*types.Pointer); isPtr {
								addW(v, "ptrrecv:"+sel.Sel.Name)
							}
						}
					} else if s == nil {
						// unresolved (imported type not loaded): record conservatively
						if _, isFn := v.Type().Underlying().(*types.Signature); !isFn {
							addW(v, "ptrrecv?:"+sel.Sel.Name)
						}
					}
				}
			}
			// reference-typed package variable passed as argument
			for ai, a := range x.Args {
				id, _ := rootIdent(a)
				if v, ok := p.isPkgVar(id); ok {
					tv := p.Info.Types[a]
					if refLike(tv.Type) {
						if f, ok := x.Fun.(*ast.Ident); ok {
							if _, isB := p.Info.Uses[f].(*types.Builtin); isB && (f.Name == "len" || f.Name == "cap") {
								continue
							}
							if _, isB := p.Info.Uses[f].(*types.Builtin); isB && (f.Name == "copy" || f.Name == "append") && ai > 0 {
								continue // source operand of copy / appended values: read only
							}
						}
						out.varEsc[p.Dir+"\t"+v.Name()+"\t"+fn] = true
					}
				}
			}
		}
		return true
	})
}

// ---------- part (b): receiver-field events ----------

type recvWalker struct {
	p        *Pkg
	recv     types.Object            // receiver (or tracked parameter) object
	fields   map[string]bool         // field names of the receiver struct
	meths    map[string]bool         // method names of the receiver type
	others   map[types.Object]string // other local variables/params of tracked types -> "Type"
	shared   map[types.Object]bool   // of those: possibly the caller's object
	parIdx   map[types.Object]int    // of those: parameters of this function -> index
	ifacePar map[types.Object]bool   // parameters declared as codec.Parameters (the caller's object behind an interface)
	alias    map[types.Object]string // local variables holding (part of) a reference-typed receiver field -> field
	retFresh map[types.Object]bool   // functions of this package that always return a new object
	errRes   bool
	ev       []event
}

func (w *recvWalker) add(kind, name string, depth int) {
	w.ev = append(w.ev, event{kind, name, depth})
}

// selField: e is `recv.f` (possibly parenthesised) with f a field -> f
func (w *recvWalker) selField(e ast.Expr) (string, bool) {
	for {
		if pe, ok := e.(*ast.ParenExpr); ok {
			e = pe.X
			continue
		}
		break
	}
	sel, ok := e.(*ast.SelectorExpr)
	if !ok {
		return "", false
	}
	id, ok := sel.X.(*ast.Ident)
	if !ok || w.p.Info.Uses[id] != w.recv {
		return "", false
	}
	if w.fields[sel.Sel.Name] {
		return sel.Sel.Name, true
	}
	return "", false
}

// rootField: e is rooted (through index/selector/star/slice) at recv.f -> (f, stripped)
func (w *recvWalker) rootField(e ast.Expr) (string, bool, bool) {
	stripped := false
	for {
		if f, ok := w.selField(e); ok {
			return f, stripped, true
		}
		switch x := e.(type) {
		case *ast.ParenExpr:
			e = x.X
		case *ast.IndexExpr:
			e, stripped = x.X, true
		case *ast.SliceExpr:
			e, stripped = x.X, true
		case *ast.StarExpr:
			e, stripped = x.X, true
		case *ast.SelectorExpr:
			e, stripped = x.X, true
		case *ast.Ident:
			if o := w.p.Info.Uses[x]; o != nil {
				if f, ok := w.alias[o]; ok {
					return f, true, true // through a local alias of the field's referent
				}
			}
			return "", false, false
		default:
			return "", false, false
		}
	}
}

// noteAlias: `v := recv.f...` / `v = recv.f...` with v of reference type makes v an alias of
// (part of) what field f refers to; any other assignment to v ends the alias.
func (w *recvWalker) noteAlias(lhs []ast.Expr, rhs []ast.Expr) {
	for i, l := range lhs {
		id, ok := l.(*ast.Ident)
		if !ok {
			continue
		}
		o := w.p.Info.Defs[id]
		if o == nil {
			o = w.p.Info.Uses[id]
		}
		if o == nil {
			continue
		}
		delete(w.alias, o)
		if len(rhs) != len(lhs) {
			continue
		}
		r := rhs[i]
		if u, ok := r.(*ast.UnaryExpr); ok && u.Op == token.AND {
			r = u.X
		}
		if f, _, ok := w.rootField(r); ok && aliasable(o.Type()) {
			w.alias[o] = f
		}
	}
}

// aliasable: a value of this type refers to storage that can be written through it
func aliasable(t types.Type) bool {
	if t == nil {
		return true
	}
	switch u := t.Underlying().(type) {
	case *types.Slice, *types.Map, *types.Pointer:
		return true
	case *types.Basic:
		return u.Kind() == types.Invalid
	}
	return false
}

// otherField: e rooted at v.f where v is another variable of a tracked type.
func (w *recvWalker) otherField(e ast.Expr) (string, string, bool) {
	for {
		switch x := e.(type) {
		case *ast.ParenExpr:
			e = x.X
		case *ast.IndexExpr:
			e = x.X
		case *ast.SliceExpr:
			e = x.X
		case *ast.StarExpr:
			e = x.X
		case *ast.SelectorExpr:
			if id, ok := x.X.(*ast.Ident); ok {
				if obj := w.p.Info.Uses[id]; obj != nil {
					if tn, ok := w.others[obj]; ok {
						return w.tag("F", obj, tn+"."+x.Sel.Name)
					}
				}
			}
			e = x.X
		default:
			return "", "", false
		}
	}
}

// tag: event kind for an access to another tracked-type object: base (fresh local object),
// base+"P" with "#i" (through parameter i of this function), base+"S" (may be the caller's).
func (w *recvWalker) tag(base string, obj types.Object, name string) (string, string, bool) {
	if i, ok := w.parIdx[obj]; ok && w.shared[obj] {
		return base + "P", fmt.Sprintf("%s#%d", name, i), true
	}
	if w.shared[obj] {
		return base + "S", name, true
	}
	return base, name, true
}

func (w *recvWalker) expr(e ast.Expr, d int) {
	if e == nil {
		return
	}
	switch x := e.(type) {
	case *ast.Ident:
		if w.p.Info.Uses[x] == w.recv {
			w.add("S", x.Name, d) // bare receiver: escapes
		}
	case *ast.SelectorExpr:
		if id, ok := x.X.(*ast.Ident); ok && w.p.Info.Uses[id] == w.recv {
			if w.fields[x.Sel.Name] {
				w.add("R", x.Sel.Name, d)
			} else {
				w.add("C", x.Sel.Name, d) // method value
			}
			return
		}
		w.expr(x.X, d)
	case *ast.CallExpr:
		w.call(x, d)
	case *ast.BinaryExpr:
		w.expr(x.X, d)
		if x.Op == token.LAND || x.Op == token.LOR {
			w.add("B", "", d+1)
			w.expr(x.Y, d+1)
		} else {
			w.expr(x.Y, d)
		}
	case *ast.UnaryExpr:
		if x.Op == token.AND {
			if f, _, ok := w.rootField(x.X); ok {
				w.subReads(x.X, d)
				w.add("U", f, d) // address of (part of) a field taken
				return
			}
		}
		w.expr(x.X, d)
	case *ast.ParenExpr:
		w.expr(x.X, d)
	case *ast.StarExpr:
		w.expr(x.X, d)
	case *ast.IndexExpr:
		w.expr(x.X, d)
		w.expr(x.Index, d)
	case *ast.IndexListExpr:
		w.expr(x.X, d)
	case *ast.SliceExpr:
		w.expr(x.X, d)
		w.expr(x.Low, d)
		w.expr(x.High, d)
		w.expr(x.Max, d)
	case *ast.TypeAssertExpr:
		w.expr(x.X, d)
	case *ast.KeyValueExpr:
		w.expr(x.Key, d)
		w.expr(x.Value, d)
	case *ast.CompositeLit:
		for _, el := range x.Elts {
			if kv, ok := el.(*ast.KeyValueExpr); ok {
				w.expr(kv.Value, d)
			} else {
				w.expr(el, d)
			}
		}
	case *ast.FuncLit:
		w.add("B", "", d+1)
		w.block(x.Body.List, d+1)
	}
}

// subReads: reads performed while evaluating an lvalue rooted at recv.f (indices, the field header)
func (w *recvWalker) subReads(e ast.Expr, d int) {
	switch x := e.(type) {
	case *ast.ParenExpr:
		w.subReads(x.X, d)
	case *ast.IndexExpr:
		w.subReads(x.X, d)
		w.expr(x.Index, d)
	case *ast.SliceExpr:
		w.subReads(x.X, d)
		w.expr(x.Low, d)
		w.expr(x.High, d)
		w.expr(x.Max, d)
	case *ast.StarExpr:
		w.subReads(x.X, d)
	case *ast.SelectorExpr:
		if f, ok := w.selField(x); ok {
			w.add("R", f, d)
			return
		}
		w.subReads(x.X, d)
	}
}

func (w *recvWalker) call(x *ast.CallExpr, d int) {
	// arguments first
	isBuiltin := func(name string) bool {
		f, ok := x.Fun.(*ast.Ident)
		if !ok || f.Name != name {
			return false
		}
		_, isB := w.p.Info.Uses[f].(*types.Builtin)
		return isB || w.p.Info.Uses[f] == nil
	}
	for i, a := range x.Args {
		// bare receiver passed to a function of the same package: a call on the object
		if id, ok := a.(*ast.Ident); ok && w.p.Info.Uses[id] == w.recv {
			if f, ok := x.Fun.(*ast.Ident); ok {
				if fo, ok := w.p.Info.Uses[f].(*types.Func); ok && fo.Pkg() == w.p.Types {
					w.add("C", fmt.Sprintf("func:%s#%d", f.Name, i), d)
					continue
				}
			}
			w.add("S", id.Name, d)
			continue
		}
		if k, nm, ok := w.passedObject(x, a, i); ok {
			w.add(k, nm, d)
		}
		w.expr(a, d)
		if f, stripped, ok := w.rootField(a); ok {
			_ = stripped
			tv := w.p.Info.Types[a]
			if i == 0 && (isBuiltin("copy") || isBuiltin("delete") || isBuiltin("clear")) {
				w.add("U", f, d)
			} else if !isBuiltin("len") && !isBuiltin("cap") && !isBuiltin("append") && !isBuiltin("copy") && !isBuiltin("string") && refLike(tv.Type) {
				w.add("G", f, d) // reference-typed (part of a) field given to a callee
			}
		}
	}
	switch f := x.Fun.(type) {
	case *ast.SelectorExpr:
		if id, ok := f.X.(*ast.Ident); ok {
			obj := w.p.Info.Uses[id]
			if obj == w.recv && obj != nil {
				if w.fields[f.Sel.Name] {
					w.add("R", f.Sel.Name, d) // calling a func-typed field
				} else {
					w.add("C", f.Sel.Name, d)
				}
				return
			}
			if tn, ok := w.others[obj]; ok && obj != nil {
				k, nm, _ := w.tag("M", obj, tn+"."+f.Sel.Name)
				w.add(k, nm, d)
				return
			}
			if obj != nil && w.ifacePar[obj] {
				w.add("I", "iface."+f.Sel.Name, d) // method of the caller's parameters object, through the interface
				return
			}
		}
		// method call on a field of the receiver: recv.f.M(...)
		if fld, _, ok := w.rootField(f.X); ok {
			w.subReads(f.X, d)
			w.add("G", fld, d)
			return
		}
		w.expr(f.X, d)
	case *ast.FuncLit:
		w.block(f.Body.List, d)
	default:
		w.expr(x.Fun, d)
	}
}

// passedObject: argument i of call x is (the address of) another tracked-type object and the
// callee is a function or method of this package: P (fresh) / PS / PP callee#i.
func (w *recvWalker) passedObject(x *ast.CallExpr, a ast.Expr, i int) (string, string, bool) {
	if u, ok := a.(*ast.UnaryExpr); ok && u.Op == token.AND {
		a = u.X
	}
	id, ok := a.(*ast.Ident)
	if !ok {
		return "", "", false
	}
	obj := w.p.Info.Uses[id]
	if obj == nil {
		return "", "", false
	}
	if _, ok := w.others[obj]; !ok {
		return "", "", false
	}
	var callee string
	switch f := x.Fun.(type) {
	case *ast.Ident:
		if fo, ok := w.p.Info.Uses[f].(*types.Func); ok && fo.Pkg() == w.p.Types {
			callee = f.Name
		}
	case *ast.SelectorExpr:
		if fo, ok := w.p.Info.Uses[f.Sel].(*types.Func); ok && fo.Pkg() == w.p.Types {
			callee = f.Sel.Name
		}
	}
	if callee == "" {
		callee = "<extern>"
	}
	return w.tag("P", obj, fmt.Sprintf("%s#%d", callee, i))
}

func (w *recvWalker) assign(lhs, rhs ast.Expr, tok token.Token, d int) {
	for {
		pe, ok := lhs.(*ast.ParenExpr)
		if !ok {
			break
		}
		lhs = pe.X
	}
	if _, ok := lhs.(*ast.Ident); ok {
		return // assignment to a local variable (possibly an alias being re-bound): not a store
	}
	if f, ok := w.selField(lhs); ok {
		switch {
		case rhs != nil && isAppendSelf(w.p, lhs, rhs):
			w.add("A", f, d)
		case tok == token.ASSIGN:
			w.add("W", f, d)
		default:
			w.add("R", f, d)
			w.add("U", f, d)
		}
		return
	}
	if f, _, ok := w.rootField(lhs); ok {
		w.subReads(lhs, d)
		w.add("U", f, d)
		return
	}
	if k, nm, ok := w.otherField(lhs); ok {
		w.add(k, nm, d)
		return
	}
	w.expr(lhs, d) // index expressions etc. of unrelated lvalues
}

func (w *recvWalker) block(stmts []ast.Stmt, d int) {
	for _, s := range stmts {
		w.stmt(s, d)
	}
}

// freshExpr: the expression yields an object created here (call result, literal, nil) or the
// value of a variable that currently holds such an object.
func (w *recvWalker) freshExpr(e ast.Expr) bool {
	switch y := e.(type) {
	case *ast.CompositeLit:
		return true
	case *ast.CallExpr:
		return callReturnsFresh(w.p, w.retFresh, y)
	case *ast.ParenExpr:
		return w.freshExpr(y.X)
	case *ast.UnaryExpr:
		if y.Op == token.AND {
			if _, ok := y.X.(*ast.CompositeLit); ok {
				return true
			}
			// &v of a value-typed local copy
			if id, ok := y.X.(*ast.Ident); ok {
				if o := w.p.Info.Uses[id]; o != nil {
					if _, ok := w.others[o]; ok {
						return !w.shared[o]
					}
				}
			}
		}
	case *ast.Ident:
		if y.Name == "nil" {
			return true
		}
		if o := w.p.Info.Uses[y]; o != nil {
			if _, ok := w.others[o]; ok {
				return !w.shared[o]
			}
		}
	}
	return false
}

func callReturnsFresh(p *Pkg, retFresh map[types.Object]bool, c *ast.CallExpr) bool {
	switch f := c.Fun.(type) {
	case *ast.Ident:
		if o := p.Info.Uses[f]; o != nil {
			return retFresh[o]
		}
	case *ast.SelectorExpr:
		if o := p.Info.Uses[f.Sel]; o != nil {
			return retFresh[o]
		}
	}
	return false
}

// computeRetFresh: functions/methods of the package every return statement of which returns
// (as first result) a composite literal, its address, nil, a call of such a function, or a local
// variable that is only ever assigned such values. Least fixpoint.
func (p *Pkg) computeRetFresh() map[types.Object]bool {
	res := map[types.Object]bool{}
	var decls []*ast.FuncDecl
	for _, f := range p.Files {
		for _, d := range f.Decls {
			if fd, ok := d.(*ast.FuncDecl); ok && fd.Body != nil && fd.Type.Results != nil && len(fd.Type.Results.List) > 0 {
				decls = append(decls, fd)
			}
		}
	}
	for changed := true; changed; {
		changed = false
		for _, fd := range decls {
			o := p.Info.Defs[fd.Name]
			if o == nil || res[o] {
				continue
			}
			params := map[types.Object]bool{}
			for _, fl := range fd.Type.Params.List {
				for _, nm := range fl.Names {
					params[p.Info.Defs[nm]] = true
				}
			}
			if fd.Recv != nil {
				for _, fl := range fd.Recv.List {
					for _, nm := range fl.Names {
						params[p.Info.Defs[nm]] = true
					}
				}
			}
			// all assignments per local variable
			asg := map[types.Object][]ast.Expr{}
			bad := map[types.Object]bool{}
			ast.Inspect(fd.Body, func(n ast.Node) bool {
				switch y := n.(type) {
				case *ast.AssignStmt:
					for i, l := range y.Lhs {
						id, ok := l.(*ast.Ident)
						if !ok {
							continue
						}
						ob := p.Info.Defs[id]
						if ob == nil {
							ob = p.Info.Uses[id]
						}
						if ob == nil {
							continue
						}
						if len(y.Rhs) != len(y.Lhs) {
							bad[ob] = true
						} else {
							asg[ob] = append(asg[ob], y.Rhs[i])
						}
					}
				case *ast.ValueSpec:
					for i, id := range y.Names {
						if ob := p.Info.Defs[id]; ob != nil && i < len(y.Values) {
							asg[ob] = append(asg[ob], y.Values[i])
						}
					}
				case *ast.UnaryExpr:
					_ = y
				}
				return true
			})
			var fresh func(e ast.Expr, depth int) bool
			fresh = func(e ast.Expr, depth int) bool {
				if depth > 4 {
					return false
				}
				switch y := e.(type) {
				case *ast.CompositeLit:
					return true
				case *ast.ParenExpr:
					return fresh(y.X, depth)
				case *ast.UnaryExpr:
					if y.Op == token.AND {
						_, ok := y.X.(*ast.CompositeLit)
						return ok
					}
				case *ast.CallExpr:
					return callReturnsFresh(p, res, y)
				case *ast.Ident:
					if y.Name == "nil" {
						return true
					}
					ob := p.Info.Uses[y]
					if ob == nil || params[ob] || bad[ob] {
						return false
					}
					if v, ok := ob.(*types.Var); !ok || v.Parent() == p.Types.Scope() {
						return false
					}
					if len(asg[ob]) == 0 {
						return false
					}
					for _, r := range asg[ob] {
						if !fresh(r, depth+1) {
							return false
						}
					}
					return true
				}
				return false
			}
			ok, nret := true, 0
			var visit func(n ast.Node) bool
			visit = func(n ast.Node) bool {
				switch y := n.(type) {
				case *ast.FuncLit:
					return false
				case *ast.ReturnStmt:
					nret++
					if len(y.Results) == 0 || !fresh(y.Results[0], 0) {
						ok = false
					}
				}
				return true
			}
			ast.Inspect(fd.Body, visit)
			if ok && nret > 0 {
				res[o] = true
				changed = true
			}
		}
	}
	return res
}

// track updates the may-be-the-caller's-object state of tracked-type variables on assignment.
func (w *recvWalker) track(lhs []ast.Expr, rhs []ast.Expr) {
	for i, l := range lhs {
		id, ok := l.(*ast.Ident)
		if !ok {
			continue
		}
		o := w.p.Info.Defs[id]
		if o == nil {
			o = w.p.Info.Uses[id]
		}
		if _, ok := w.others[o]; !ok || o == nil {
			continue
		}
		if _, isPtr := o.Type().(*types.Pointer); !isPtr {
			w.shared[o] = false // a struct value is its own storage (a copy)
			continue
		}
		if len(rhs) != len(lhs) {
			w.shared[o] = true // v, ok := x.(*T) and similar
			continue
		}
		w.shared[o] = !w.freshExpr(rhs[i])
	}
}

// nested runs f for a conditionally executed region and merges the alias state (may = or).
func (w *recvWalker) nested(loop bool, f func()) {
	before := map[types.Object]bool{}
	for k, v := range w.shared {
		before[k] = v
	}
	if loop {
		// a loop body may start in the state its previous iteration ended in
		n := len(w.ev)
		f()
		w.ev = w.ev[:n]
		for k, v := range before {
			if v {
				w.shared[k] = true
			}
		}
		for k, v := range w.shared {
			before[k] = v
		}
	}
	f()
	for k, v := range before {
		if v {
			w.shared[k] = true
		}
	}
}

func (w *recvWalker) stmt(s ast.Stmt, d int) {
	switch x := s.(type) {
	case nil:
	case *ast.ExprStmt:
		w.expr(x.X, d)
	case *ast.AssignStmt:
		for i, r := range x.Rhs {
			if len(x.Rhs) == len(x.Lhs) && isAppendSelf(w.p, x.Lhs[i], r) {
				if _, ok := w.selField(x.Lhs[i]); ok {
					// append(recv.f, args...): only the extra arguments are read here
					for _, a := range r.(*ast.CallExpr).Args[1:] {
						w.expr(a, d)
					}
					continue
				}
			}
			w.expr(r, d)
		}
		if x.Tok == token.DEFINE {
			w.track(x.Lhs, x.Rhs)
			w.noteAlias(x.Lhs, x.Rhs)
			return
		}
		for i, l := range x.Lhs {
			var r ast.Expr
			if len(x.Rhs) == len(x.Lhs) {
				r = x.Rhs[i]
			}
			w.assign(l, r, x.Tok, d)
		}
		w.track(x.Lhs, x.Rhs)
		w.noteAlias(x.Lhs, x.Rhs)
	case *ast.IncDecStmt:
		if _, isId := x.X.(*ast.Ident); isId {
			return
		}
		if f, _, ok := w.rootField(x.X); ok {
			w.subReads(x.X, d)
			if _, direct := w.selField(x.X); direct {
				w.add("R", f, d)
			}
			w.add("U", f, d)
		} else if k, nm, ok := w.otherField(x.X); ok {
			w.add(k, nm, d)
		} else {
			w.expr(x.X, d)
		}
	case *ast.DeclStmt:
		if gd, ok := x.Decl.(*ast.GenDecl); ok {
			for _, sp := range gd.Specs {
				if vs, ok := sp.(*ast.ValueSpec); ok {
					for _, v := range vs.Values {
						w.expr(v, d)
					}
					if len(vs.Values) > 0 {
						var ls []ast.Expr
						for _, nm := range vs.Names {
							ls = append(ls, nm)
						}
						w.track(ls, vs.Values)
					}
				}
			}
		}
	case *ast.ReturnStmt:
		for _, r := range x.Results {
			w.expr(r, d)
			// a reference-typed (part of a) receiver field handed to the caller
			if f, _, ok := w.rootField(r); ok {
				tv := w.p.Info.Types[r]
				if refLike(tv.Type) {
					w.add("T", f, d)
				}
			}
		}
		k := "X"
		if w.errRes && len(x.Results) > 0 {
			if id, ok := x.Results[len(x.Results)-1].(*ast.Ident); !ok || id.Name != "nil" {
				k = "E"
			}
		}
		w.add(k, "", d)
	case *ast.BlockStmt:
		w.block(x.List, d)
	case *ast.IfStmt:
		w.stmt(x.Init, d)
		w.expr(x.Cond, d)
		// both branches start from the state before the if; the states at their ends are merged
		before := map[types.Object]bool{}
		for k, v := range w.shared {
			before[k] = v
		}
		w.add("B", "", d+1)
		w.block(x.Body.List, d+1)
		afterThen := map[types.Object]bool{}
		for k, v := range w.shared {
			afterThen[k] = v
		}
		if x.Else != nil {
			w.shared = map[types.Object]bool{}
			for k, v := range before {
				w.shared[k] = v
			}
			w.add("B", "", d+1)
			switch e := x.Else.(type) {
			case *ast.BlockStmt:
				w.block(e.List, d+1)
			default:
				w.stmt(e, d+1)
			}
			for k, v := range afterThen {
				if v {
					w.shared[k] = true
				}
			}
		} else {
			for k, v := range before {
				if v {
					w.shared[k] = true
				}
			}
		}
	case *ast.ForStmt:
		w.stmt(x.Init, d)
		w.nested(true, func() {
			w.add("B", "", d+1)
			w.expr(x.Cond, d+1)
			w.block(x.Body.List, d+1)
			w.stmt(x.Post, d+1)
		})
	case *ast.RangeStmt:
		w.expr(x.X, d)
		if x.Tok == token.DEFINE && x.Value != nil {
			if id, ok := x.Value.(*ast.Ident); ok {
				if o := w.p.Info.Defs[id]; o != nil {
					if f, _, ok := w.rootField(x.X); ok && aliasable(o.Type()) {
						w.alias[o] = f
					}
				}
			}
		}
		w.nested(true, func() {
			w.add("B", "", d+1)
			if x.Tok == token.ASSIGN {
				for _, e := range []ast.Expr{x.Key, x.Value} {
					if e != nil {
						w.assign(e, nil, token.ASSIGN, d+1)
					}
				}
			}
			w.block(x.Body.List, d+1)
		})
	case *ast.SwitchStmt:
		w.stmt(x.Init, d)
		w.expr(x.Tag, d)
		for _, c := range x.Body.List {
			cc := c.(*ast.CaseClause)
			w.nested(false, func() {
				w.add("B", "", d+1)
				for _, e := range cc.List {
					w.expr(e, d+1)
				}
				w.block(cc.Body, d+1)
			})
		}
	case *ast.TypeSwitchStmt:
		w.stmt(x.Init, d)
		w.stmt(x.Assign, d)
		for _, c := range x.Body.List {
			w.nested(false, func() {
				w.add("B", "", d+1)
				w.block(c.(*ast.CaseClause).Body, d+1)
			})
		}
	case *ast.SelectStmt:
		for _, c := range x.Body.List {
			cc := c.(*ast.CommClause)
			w.nested(false, func() {
				w.add("B", "", d+1)
				w.stmt(cc.Comm, d+1)
				w.block(cc.Body, d+1)
			})
		}
	case *ast.LabeledStmt:
		w.stmt(x.Stmt, d)
	case *ast.GoStmt:
		w.add("B", "", d+1) // runs later / concurrently: nothing in it is definitely done afterwards
		w.call(x.Call, d+1)
	case *ast.DeferStmt:
		w.add("B", "", d+1) // runs at function exit
		w.call(x.Call, d+1)
	case *ast.SendStmt:
		w.expr(x.Chan, d)
		w.expr(x.Value, d)
	}
}

func isReturn(s ast.Stmt) bool { _, ok := s.(*ast.ReturnStmt); return ok }

func hasMethods(ms map[string]bool, names ...string) bool {
	for _, n := range names {
		if !ms[n] {
			return false
		}
	}
	return true
}

func namedOf(t types.Type) *types.Named {
	if t == nil {
		return nil
	}
	if pt, ok := t.(*types.Pointer); ok {
		t = pt.Elem()
	}
	n, _ := t.(*types.Named)
	return n
}

func (p *Pkg) analyseTracked(out *factsOut) {
	if p.Types == nil {
		return
	}
	// method names per receiver base type
	meths := map[string]map[string]bool{}
	for _, f := range p.Files {
		for _, d := range f.Decls {
			if fd, ok := d.(*ast.FuncDecl); ok && fd.Recv != nil && len(fd.Recv.List) > 0 {
				b := recvBase(fd.Recv.List[0].Type)
				if meths[b] == nil {
					meths[b] = map[string]bool{}
				}
				meths[b][fd.Name.Name] = true
			}
		}
	}
	class := map[string]string{}
	for tn, ms := range meths {
		switch {
		case hasMethods(ms, "Encode", "Decode", "Name", "TransferSyntax", "GetDefaultParameters"):
			class[tn] = "codec"
		case hasMethods(ms, "GetParameter", "SetParameter", "Validate"):
			class[tn] = "params"
		case p.Dir == "jpeg2000" && tn == "Encoder":
			class[tn] = "encoder"
		case p.Dir == "jpeg2000" && tn == "Decoder":
			class[tn] = "decoder"
		}
	}
	fieldsOf := func(tn string) map[string]bool {
		fs := map[string]bool{}
		if o := p.Types.Scope().Lookup(tn); o != nil {
			if st, ok := o.Type().Underlying().(*types.Struct); ok {
				for i := 0; i < st.NumFields(); i++ {
					fs[st.Field(i).Name()] = true
				}
			}
		}
		return fs
	}
	for tn, c := range class {
		out.tracked[p.Dir+"\t"+tn+"\t"+c] = true
		out.fields[p.Dir+"\t"+tn] = sortedKeys(fieldsOf(tn))
	}
	trackedOf := func(t types.Type) (string, bool) {
		n := namedOf(t)
		if n == nil || n.Obj().Pkg() != p.Types {
			return "", false
		}
		_, ok := class[n.Obj().Name()]
		return n.Obj().Name(), ok
	}
	retFresh := p.computeRetFresh()
	// every function: methods with tracked receiver, and functions taking a tracked-type parameter
	for _, f := range p.Files {
		for _, d := range f.Decls {
			fd, ok := d.(*ast.FuncDecl)
			if !ok || fd.Body == nil {
				continue
			}
			type tgt struct {
				obj  types.Object
				typ  string
				name string
			}
			var tgts []tgt
			if fd.Recv != nil && len(fd.Recv.List) > 0 {
				b := recvBase(fd.Recv.List[0].Type)
				if _, ok := class[b]; ok && len(fd.Recv.List[0].Names) > 0 {
					if o := p.Info.Defs[fd.Recv.List[0].Names[0]]; o != nil {
						tgts = append(tgts, tgt{o, b, fd.Name.Name})
					}
				} else if ok {
					// unnamed receiver: no field can be touched; still list the method
					tgts = append(tgts, tgt{nil, b, fd.Name.Name})
				}
			}
			idx := 0
			for _, fl := range fd.Type.Params.List {
				for _, nm := range fl.Names {
					if o := p.Info.Defs[nm]; o != nil {
						if tn, ok := trackedOf(o.Type()); ok && fd.Recv == nil {
							tgts = append(tgts, tgt{o, tn, fmt.Sprintf("func:%s#%d", fd.Name.Name, idx)})
						}
					}
					idx++
				}
				if len(fl.Names) == 0 {
					idx++
				}
			}
			if len(tgts) == 0 {
				for _, fl := range fd.Type.Params.List {
					if ts := types.ExprString(fl.Type); ts == "codec.Parameters" {
						out.nondet[p.Dir+"\t"+funcName(fd)+"\tcodec.Parameters-outside-tracked-types"] = true
					}
				}
			}
			errRes := false
			if fd.Type.Results != nil && len(fd.Type.Results.List) > 0 {
				last := fd.Type.Results.List[len(fd.Type.Results.List)-1]
				if id, ok := last.Type.(*ast.Ident); ok && id.Name == "error" {
					errRes = true
				}
			}
			for _, t := range tgts {
				w := &recvWalker{p: p, recv: t.obj, fields: fieldsOf(t.typ), meths: meths[t.typ],
					others: map[types.Object]string{}, shared: map[types.Object]bool{}, parIdx: map[types.Object]int{}, alias: map[types.Object]string{}, ifacePar: map[types.Object]bool{},
					retFresh: retFresh, errRes: errRes}
				// other variables of tracked types in this function (parameter objects seen by codecs)
				ast.Inspect(fd, func(n ast.Node) bool {
					id, ok := n.(*ast.Ident)
					if !ok {
						return true
					}
					o := p.Info.Defs[id]
					if o == nil || o == t.obj {
						return true
					}
					if v, ok := o.(*types.Var); ok && !v.IsField() {
						if tn, ok := trackedOf(v.Type()); ok {
							w.others[o] = tn
						}
					}
					return true
				})
				// which of them may alias a caller-supplied object: parameters, and variables that
				// are assigned from anything other than a call / composite literal / &literal
				pi := 0
				for _, fl := range fd.Type.Params.List {
					ts := types.ExprString(fl.Type)
					for _, nm := range fl.Names {
						if o := p.Info.Defs[nm]; o != nil && (ts == "codec.Parameters" || strings.HasSuffix(ts, ".Parameters") && !strings.HasPrefix(ts, "*")) {
							w.ifacePar[o] = true
						}
					}
					for _, nm := range fl.Names {
						if o := p.Info.Defs[nm]; o != nil {
							if _, ok := w.others[o]; ok {
								if _, isPtr := o.Type().(*types.Pointer); isPtr {
									w.shared[o] = true
									w.parIdx[o] = pi
								}
							}
						}
						pi++
					}
					if len(fl.Names) == 0 {
						pi++
					}
				}
				if t.obj != nil {
					w.block(fd.Body.List, 0)
				}
				if n := len(fd.Body.List); n == 0 || !isReturn(fd.Body.List[n-1]) {
					w.add("X", "", 0) // falls off the end
				}
				out.methods = append(out.methods, &methodFacts{pkg: p.Dir, typ: t.typ, class: class[t.typ], name: t.name, events: w.ev})
			}
		}
	}
}

// ---------- part (c): functions reachable only from init ----------

func (p *Pkg) analyseInitOnly(out *factsOut) {
	if p.Types == nil {
		return
	}
	type node struct {
		name     string
		exported bool
		isInit   bool
		callees  map[string]bool
	}
	nodes := map[string]*node{}
	objName := map[types.Object]string{}
	var inits []string
	nInit := 0
	for _, f := range p.Files {
		for _, d := range f.Decls {
			fd, ok := d.(*ast.FuncDecl)
			if !ok {
				continue
			}
			nm := funcName(fd)
			n := &node{name: nm, callees: map[string]bool{}}
			if fd.Recv == nil && fd.Name.Name == "init" {
				nInit++
				nm = fmt.Sprintf("init#%d", nInit)
				n.name, n.isInit = nm, true
				inits = append(inits, nm)
			} else {
				n.exported = ast.IsExported(fd.Name.Name)
				if o := p.Info.Defs[fd.Name]; o != nil {
					objName[o] = nm
				}
			}
			nodes[nm] = n
		}
	}
	collect := func(n *node, body ast.Node) {
		ast.Inspect(body, func(x ast.Node) bool {
			if id, ok := x.(*ast.Ident); ok {
				if o := p.Info.Uses[id]; o != nil {
					if nm, ok := objName[o]; ok {
						n.callees[nm] = true
					}
				}
			}
			return true
		})
	}
	nInit = 0
	for _, f := range p.Files {
		for _, d := range f.Decls {
			switch x := d.(type) {
			case *ast.FuncDecl:
				if x.Body == nil {
					continue
				}
				nm := funcName(x)
				if x.Recv == nil && x.Name.Name == "init" {
					nInit++
					nm = fmt.Sprintf("init#%d", nInit)
				}
				collect(nodes[nm], x.Body)
			case *ast.GenDecl:
				if x.Tok != token.VAR {
					continue
				}
				n := nodes["<pkg-level initializer>"]
				if n == nil {
					n = &node{name: "<pkg-level initializer>", isInit: true, callees: map[string]bool{}}
					nodes[n.name] = n
					inits = append(inits, n.name)
				}
				for _, sp := range x.Specs {
					if vs, ok := sp.(*ast.ValueSpec); ok {
						for _, v := range vs.Values {
							collect(n, v)
						}
					}
				}
			}
		}
	}
	reach := func(roots []string) map[string]bool {
		seen := map[string]bool{}
		var st []string
		st = append(st, roots...)
		for len(st) > 0 {
			k := st[len(st)-1]
			st = st[:len(st)-1]
			if seen[k] {
				continue
			}
			seen[k] = true
			if n := nodes[k]; n != nil {
				for c := range n.callees {
					st = append(st, c)
				}
			}
		}
		return seen
	}
	fromInit := reach(inits)
	var ext []string
	for k, n := range nodes {
		if n.exported {
			ext = append(ext, k)
		}
	}
	fromExt := reach(ext)
	// unexported functions never referenced from anywhere could still be reached through
	// nothing at all (dead); they are not "init only". Unexported functions referenced only by
	// other unexported, unreferenced functions are treated as externally reachable (conservative).
	referenced := map[string]bool{}
	for _, n := range nodes {
		for c := range n.callees {
			referenced[c] = true
		}
	}
	var dead []string
	for k, n := range nodes {
		if !n.isInit && !n.exported && !referenced[k] {
			dead = append(dead, k)
		}
	}
	fromDead := reach(dead)
	for k := range fromInit {
		n := nodes[k]
		if n == nil || n.isInit {
			continue
		}
		if !fromExt[k] && !fromDead[k] {
			out.initOnly[p.Dir+"\t"+k] = true
		}
	}
}

// analyseRefs: every reference (call or function value) to a function or method of the module,
// from any function body or package-level initialiser, across packages.
func (p *Pkg) analyseRefs(out *factsOut) {
	nameOf := func(fo *types.Func) (string, string, bool) {
		if fo.Pkg() == nil {
			return "", "", false
		}
		path := fo.Pkg().Path()
		if path != factsModule && !strings.HasPrefix(path, factsModule+"/") {
			return "", "", false
		}
		dir := strings.TrimPrefix(strings.TrimPrefix(path, factsModule), "/")
		nm := fo.Name()
		if sig, ok := fo.Type().(*types.Signature); ok && sig.Recv() != nil {
			t := sig.Recv().Type()
			if pt, ok := t.(*types.Pointer); ok {
				if n, ok := pt.Elem().(*types.Named); ok {
					nm = "(*" + n.Obj().Name() + ")." + nm
				}
			} else if n, ok := t.(*types.Named); ok {
				nm = "(" + n.Obj().Name() + ")." + nm
			}
		}
		return dir, nm, true
	}
	collect := func(caller string, body ast.Node) {
		ast.Inspect(body, func(x ast.Node) bool {
			if id, ok := x.(*ast.Ident); ok {
				if fo, ok := p.Info.Uses[id].(*types.Func); ok {
					if dir, nm, ok := nameOf(fo); ok {
						out.refs[dir+"\t"+nm+"\t"+p.Dir+"\t"+caller] = true
					}
				}
				// mentioning a type of the module may lead to any of its methods being called
				// (interface dispatch): edge caller -> type node; type node -> methods below
				if tn, ok := p.Info.Uses[id].(*types.TypeName); ok && tn.Pkg() != nil {
					path := tn.Pkg().Path()
					if path == factsModule || strings.HasPrefix(path, factsModule+"/") {
						dir := strings.TrimPrefix(strings.TrimPrefix(path, factsModule), "/")
						out.refs[dir+"\ttype:"+tn.Name()+"\t"+p.Dir+"\t"+caller] = true
					}
				}
			}
			return true
		})
	}
	for _, f := range p.Files {
		for _, d := range f.Decls {
			switch x := d.(type) {
			case *ast.FuncDecl:
				if x.Recv != nil && len(x.Recv.List) > 0 {
					out.refs[p.Dir+"\t"+funcName(x)+"\t"+p.Dir+"\ttype:"+recvBase(x.Recv.List[0].Type)] = true
				}
				if x.Body != nil {
					collect(funcName(x), x.Body)
				}
			case *ast.GenDecl:
				if x.Tok == token.VAR {
					for _, sp := range x.Specs {
						if vs, ok := sp.(*ast.ValueSpec); ok {
							for _, v := range vs.Values {
								collect("<pkg-level initializer>", v)
							}
						}
					}
				}
			}
		}
	}
}

// ---------- driver ----------

func genFacts() error {
	dirs, err := libraryDirs()
	if err != nil {
		return err
	}
	out := &factsOut{varWrites: map[string]bool{}, varEsc: map[string]bool{}, varRefs: map[string]bool{}, extWrites: map[string]bool{},
		tracked: map[string]bool{}, fields: map[string][]string{}, initOnly: map[string]bool{}, unsafeUse: map[string]bool{}, refs: map[string]bool{}, nondet: map[string]bool{}}
	var scanned []string
	nfiles := 0
	for _, dir := range dirs {
		p, err := loadFactsPkg(dir)
		if err != nil {
			if strings.Contains(err.Error(), "no go files") {
				continue
			}
			return err
		}
		if p.Types == nil {
			return fmt.Errorf("package %s: type check produced no package", dir)
		}
		if p.Types.Name() == "main" {
			continue
		}
		scanned = append(scanned, dir)
		nfiles += len(p.Files)
		// package-level variables
		for _, f := range p.Files {
			for _, im := range f.Imports {
				path := strings.Trim(im.Path.Value, "\"")
				switch path {
				case "unsafe", "reflect", "C", "sync", "sync/atomic", "math/rand", "time", "os":
					out.unsafeUse[dir+"\t"+path] = true
				}
			}
			for _, d := range f.Decls {
				switch x := d.(type) {
				case *ast.GenDecl:
					if x.Tok != token.VAR {
						continue
					}
					for _, sp := range x.Specs {
						vs := sp.(*ast.ValueSpec)
						for _, nm := range vs.Names {
							if nm.Name == "_" {
								continue
							}
							cls := "other"
							if v, ok := p.Info.Defs[nm].(*types.Var); ok {
								cls = typeClassOfVar(v)
							}
							out.vars = append(out.vars, dir+"\t"+nm.Name+"\t"+cls)
						}
						for _, v := range vs.Values {
							p.analysePkgVars("<pkg-level initializer>", v, out)
						}
					}
				case *ast.FuncDecl:
					if x.Body == nil {
						continue
					}
					p.analysePkgVars(funcName(x), x.Body, out)
				}
			}
		}
		p.analyseTracked(out)
		p.analyseInitOnly(out)
		p.analyseRefs(out)
	}
	if len(scanned) < 10 {
		return fmt.Errorf("only %d library packages found under %s", len(scanned), repo)
	}

	var sb strings.Builder
	sb.WriteString("(* GENERATED by harness/cmd/gen (gen_facts.go) from /repo on every run — do not edit.\n")
	sb.WriteString("   Structural facts: write sites of package-level variables, receiver-field events of the\n")
	sb.WriteString("   codec / parameter / jpeg2000.Encoder / jpeg2000.Decoder methods, init-only functions.\n")
	sb.WriteString("   Not an EXTRACT file (uses Coq strings; the OCaml module String would shadow Stdlib's). *)\n")
	sb.WriteString("From Coq Require Import String List.\nImport ListNotations.\nOpen Scope string_scope.\n\n")

	fmt.Fprintf(&sb, "Definition facts_packages : list string :=\n  %s.\n", coqStrList(scanned))
	fmt.Fprintf(&sb, "Definition facts_num_files : nat := %d.\n\n", nfiles)

	sb.WriteString("(* imports of interest per package (unsafe/reflect/C must be absent for the extractor to see every write) *)\n")
	sb.WriteString("Definition facts_imports : list (string * string) := [\n")
	writeTuples(&sb, sortedKeys(out.unsafeUse), 2)
	sb.WriteString("].\n\n")

	sort.Strings(out.vars)
	sb.WriteString("(* (package, variable, type class) *)\nDefinition pkg_vars : list (string * string * string) := [\n")
	writeTuples(&sb, out.vars, 3)
	sb.WriteString("].\n\n")

	sb.WriteString("(* (package, variable, function, kind): kind = assign | compound | incdec | elem | elem-via-alias | append | addr | addr_ro | ptrrecv:<m>\n   (addr_ro: `q := &v[..]` whose q is only ever dereferenced for loads) *)\n")
	sb.WriteString("Definition pkg_var_writes : list (string * string * string * string) := [\n")
	writeTuples(&sb, sortedKeys(out.varWrites), 4)
	sb.WriteString("].\n\n")

	sb.WriteString("(* (package, variable, function): reference-typed variable passed to a call (contents may be written by the callee) *)\n")
	sb.WriteString("Definition pkg_var_escapes : list (string * string * string) := [\n")
	writeTuples(&sb, sortedKeys(out.varEsc), 3)
	sb.WriteString("].\n\n")

	sb.WriteString("(* (package, variable, function, how): a reference into the variable (pointer / slice / map value read from\n")
	sb.WriteString("   it, or the address of part of it) is copied: to-local | to-field | to-package-variable | returned | in-literal,\n")
	sb.WriteString("   and for a local copy one more hop: via-local:to-field | :returned | :passed | :in-literal | :method:<m> *)\n")
	sb.WriteString("Definition pkg_var_refs : list (string * string * string * string) := [\n")
	writeTuples(&sb, sortedKeys(out.varRefs), 4)
	sb.WriteString("].\n\n")

	sb.WriteString("(* (package, imported variable, function, kind): writes to a variable of ANOTHER package *)\n")
	sb.WriteString("Definition pkg_ext_writes : list (string * string * string * string) := [\n")
	writeTuples(&sb, sortedKeys(out.extWrites), 4)
	sb.WriteString("].\n\n")

	sb.WriteString("(* (package, function, construct): constructs whose behaviour may vary from run to run *)\n")
	sb.WriteString("Definition nondet_sites : list (string * string * string) := [\n")
	writeTuples(&sb, sortedKeys(out.nondet), 3)
	sb.WriteString("].\n\n")

	sb.WriteString("(* (package, function): reachable from init / package-level initialisers and from nothing else *)\n")
	sb.WriteString("Definition init_only_funcs : list (string * string) := [\n")
	writeTuples(&sb, sortedKeys(out.initOnly), 2)
	sb.WriteString("].\n\n")

	// callers (references from anywhere in the module) of every function that writes a package-level variable
	writers := map[string]bool{}
	for k := range out.varWrites {
		parts := strings.Split(k, "\t")
		writers[parts[0]+"\t"+parts[2]] = true
	}
	callers := map[string]bool{}
	for k := range out.refs {
		parts := strings.Split(k, "\t")
		if writers[parts[0]+"\t"+parts[1]] {
			callers[k] = true
		}
	}
	sb.WriteString("(* (package, writer function, referencing package, referencing function): every reference, anywhere in the\n")
	sb.WriteString("   module, to a function that writes a package-level variable *)\n")
	sb.WriteString("Definition writer_callers : list (string * string * string * string) := [\n")
	writeTuples(&sb, sortedKeys(callers), 4)
	sb.WriteString("].\n\n")

	// which entry points (methods of tracked types) reach each writer over the module-wide
	// reference graph (calls, function values, and type mention => all methods of the type)
	succ := map[string][]string{}
	for k := range out.refs {
		parts := strings.Split(k, "\t")
		from := parts[2] + "\t" + parts[3]
		succ[from] = append(succ[from], parts[0]+"\t"+parts[1])
	}
	reachFrom := func(root string) map[string]bool {
		seen := map[string]bool{}
		st := []string{root}
		for len(st) > 0 {
			k := st[len(st)-1]
			st = st[:len(st)-1]
			if seen[k] {
				continue
			}
			seen[k] = true
			st = append(st, succ[k]...)
		}
		return seen
	}
	entryReach := map[string]map[string]bool{}
	for _, m := range out.methods {
		if strings.HasPrefix(m.name, "func:") {
			continue
		}
		for _, star := range []string{"(*" + m.typ + ")." + m.name, "(" + m.typ + ")." + m.name} {
			root := m.pkg + "\t" + star
			if _, ok := succ[root]; !ok {
				continue
			}
			r := reachFrom(root)
			for w := range writers {
				if r[w] {
					if entryReach[w] == nil {
						entryReach[w] = map[string]bool{}
					}
					entryReach[w][m.pkg+":"+star] = true
				}
			}
		}
	}
	sb.WriteString("(* (package, writer function, entry points = methods of tracked types from which it is reachable) *)\n")
	sb.WriteString("Definition writer_entry_reach : list (string * string * list string) := [\n")
	wk := sortedKeys(writers)
	for i, w := range wk {
		parts := strings.Split(w, "\t")
		sep := ";"
		if i == len(wk)-1 {
			sep = ""
		}
		fmt.Fprintf(&sb, "  (%s, %s, %s)%s\n", coqStr(parts[0]), coqStr(parts[1]), coqStrList(sortedKeys(entryReach[w])), sep)
	}
	sb.WriteString("].\n\n")

	sb.WriteString("(* (package, type, class): class = codec | params | encoder | decoder *)\n")
	sb.WriteString("Definition tracked_types : list (string * string * string) := [\n")
	writeTuples(&sb, sortedKeys(out.tracked), 3)
	sb.WriteString("].\n\n")

	sb.WriteString("(* (package, type, fields) *)\nDefinition tracked_fields : list (string * string * list string) := [\n")
	var fk []string
	for k := range out.fields {
		fk = append(fk, k)
	}
	sort.Strings(fk)
	for i, k := range fk {
		parts := strings.Split(k, "\t")
		sep := ";"
		if i == len(fk)-1 {
			sep = ""
		}
		fmt.Fprintf(&sb, "  (%s, %s, %s)%s\n", coqStr(parts[0]), coqStr(parts[1]), coqStrList(out.fields[k]), sep)
	}
	sb.WriteString("].\n\n")

	sort.SliceStable(out.methods, func(i, j int) bool {
		a, b := out.methods[i], out.methods[j]
		if a.pkg != b.pkg {
			return a.pkg < b.pkg
		}
		if a.typ != b.typ {
			return a.typ < b.typ
		}
		return a.name < b.name
	})
	sb.WriteString("(* Receiver-field events of every method of a tracked type, in source order.\n")
	sb.WriteString("   (kind, name, conditional nesting depth):\n")
	sb.WriteString("     R f   field read                      W f   whole-field assignment  recv.f = e\n")
	sb.WriteString("     U f   partial update (recv.f[i] = , recv.f.g = , op=, ++, &recv.f, copy/delete/clear)\n")
	sb.WriteString("     A f   recv.f = append(recv.f, ...)    G f   reference-typed (part of) field given to a callee\n")
	sb.WriteString("     C m   call of method m on the same receiver (func:<f>#<i> = package function taking it as argument i)\n")
	sb.WriteString("     M T.m    method m called on ANOTHER object of tracked type T that was created in this function\n")
	sb.WriteString("     MS T.m   ... on an object that may be the caller's;   MP T.m#i  ... on parameter i of this function\n")
	sb.WriteString("     F T.f / FS T.f / FP T.f#i   field f of such an object stored directly (same three cases)\n")
	sb.WriteString("     P g#i / PS g#i / PP g#i#j   such an object passed as argument i of g (PP: it is our parameter j)\n")
	sb.WriteString("     I iface.m   method m called on a parameter declared as codec . Parameters (the caller's object, via the interface)\n")
	sb.WriteString("     T f   reference-typed (part of) field f returned to the caller\n")
	sb.WriteString("     X     return (no error; also falling off the end)   E   return with a non-nil error expression\n")
	sb.WriteString("     B     a conditionally executed region (branch, loop body, case, closure, right operand of && ||) starts at this depth\n")
	sb.WriteString("     S     the receiver itself escapes (returned, stored or passed on) *)\n")
	sb.WriteString("Definition method_events : list (string * string * string * string * list (string * string * nat)) := [\n")
	for i, m := range out.methods {
		var evs []string
		for _, e := range m.events {
			evs = append(evs, fmt.Sprintf("(%s, %s, %d)", coqStr(e.kind), coqStr(e.name), e.depth))
		}
		sep := ";"
		if i == len(out.methods)-1 {
			sep = ""
		}
		fmt.Fprintf(&sb, "  (%s, %s, %s, %s,\n    [%s])%s\n", coqStr(m.pkg), coqStr(m.typ), coqStr(m.class), coqStr(m.name), strings.Join(evs, "; "), sep)
	}
	sb.WriteString("].\n\n")

	// stores through a parameter of tracked type, and every place such an object is passed on
	stores, passes := map[string]bool{}, map[string]bool{}
	for _, m := range out.methods {
		for _, e := range m.events {
			if strings.HasPrefix(m.name, "func:") && (e.kind == "W" || e.kind == "U" || e.kind == "A") {
				// a package function whose parameter is the tracked object: its field stores
				stores[m.pkg+"\t"+strings.TrimPrefix(m.name, "func:")+"\t"+m.typ+"."+e.name] = true
			}
			switch e.kind {
			case "FP":
				if i := strings.LastIndex(e.name, "#"); i >= 0 {
					stores[m.pkg+"\t"+m.name+e.name[i:]+"\t"+e.name[:i]] = true
				}
			case "P", "PS":
				passes[m.pkg+"\t"+e.name+"\t"+e.kind+"\t"+m.name] = true
			case "PP":
				if i := strings.LastIndex(e.name, "#"); i >= 0 {
					passes[m.pkg+"\t"+e.name[:i]+"\t"+e.kind+"\t"+m.name] = true
				}
			}
		}
	}
	sb.WriteString("(* (package, \"g#i\", \"T.f\"): function/method g stores field f of its parameter i (a tracked-type object) *)\n")
	sb.WriteString("Definition param_stores : list (string * string * string) := [\n")
	writeTuples(&sb, sortedKeys(stores), 3)
	sb.WriteString("].\n\n")
	sb.WriteString("(* (package, \"g#i\", kind, caller): a tracked-type object is passed as argument i of g;\n")
	sb.WriteString("   kind P = created in the caller, PS = may be the caller's caller's object, PP = the caller's own parameter *)\n")
	sb.WriteString("Definition param_passes : list (string * string * string * string) := [\n")
	writeTuples(&sb, sortedKeys(passes), 4)
	sb.WriteString("].\n\n")

	// transitive sets over the same-receiver call graph (fixpoint)
	type key struct{ pkg, typ, name string }
	byKey := map[key]*methodFacts{}
	for _, m := range out.methods {
		byKey[key{m.pkg, m.typ, m.name}] = m
	}
	closure := func(m *methodFacts) (ws, rs, as, calls []string) {
		seen := map[key]bool{}
		w, r, a := map[string]bool{}, map[string]bool{}, map[string]bool{}
		var visit func(k key)
		visit = func(k key) {
			if seen[k] {
				return
			}
			seen[k] = true
			mm := byKey[k]
			if mm == nil {
				return
			}
			for _, e := range mm.events {
				switch e.kind {
				case "W", "U":
					w[e.name] = true
				case "A":
					w[e.name] = true
					a[e.name] = true
					r[e.name] = true
				case "R", "G":
					r[e.name] = true
				case "C":
					visit(key{k.pkg, k.typ, e.name})
				}
				if e.kind == "U" {
					r[e.name] = true
				}
			}
		}
		visit(key{m.pkg, m.typ, m.name})
		delete(seen, key{m.pkg, m.typ, m.name})
		cs := map[string]bool{}
		for k := range seen {
			cs[k.name] = true
		}
		return sortedKeys(w), sortedKeys(r), sortedKeys(a), sortedKeys(cs)
	}
	sb.WriteString("(* Transitive closure over same-receiver calls (fixpoint computed by the translator):\n")
	sb.WriteString("   (package, type, method, fields written [W,U,A], fields read [R,U,A,G], fields appended [A], methods reached) *)\n")
	sb.WriteString("Definition method_closure : list (string * string * string * list string * list string * list string * list string) := [\n")
	for i, m := range out.methods {
		ws, rs, as, cs := closure(m)
		sep := ";"
		if i == len(out.methods)-1 {
			sep = ""
		}
		fmt.Fprintf(&sb, "  (%s, %s, %s,\n    %s,\n    %s,\n    %s,\n    %s)%s\n", coqStr(m.pkg), coqStr(m.typ), coqStr(m.name),
			coqStrList(ws), coqStrList(rs), coqStrList(as), coqStrList(cs), sep)
	}
	sb.WriteString("].\n")
	writeIfChanged("Facts_gen.v", []byte(sb.String()))
	return nil
}

func writeTuples(sb *strings.Builder, rows []string, n int) {
	for i, r := range rows {
		parts := strings.Split(r, "\t")
		for len(parts) < n {
			parts = append(parts, "")
		}
		q := make([]string, n)
		for j := 0; j < n; j++ {
			q[j] = coqStr(parts[j])
		}
		sep := ";"
		if i == len(rows)-1 {
			sep = ""
		}
		fmt.Fprintf(sb, "  (%s)%s\n", strings.Join(q, ", "), sep)
	}
}
