package main

import (
	"fmt"
	"go/ast"
	"go/constant"
	"go/token"
	"sort"
	"strings"
)

// JPEG DCT area (C11, C15): zig-zag order, base quantisation tables (K.1/K.2), every
// Huffman BITS/HUFFVAL table pair of jpeg/standard, the constants of the IJG integer
// DCT/IDCT (package constants of dct_ijg.go and the function-local constants of the 12-bit
// port in jpeg/extended), and the integer literals of the fixed-point colour conversions
// in jpeg/baseline, in source order. Output: coq/Gen/JpegTables_gen.v.
func init() {
	register("dct", func() error {
		std, err := loadPkg("jpeg/standard")
		if err != nil {
			return err
		}
		out := genHeader
		emit := func(goName, coqName string, n int) error {
			xs, err := std.intTable(goName)
			if err != nil {
				return err
			}
			if n > 0 && len(xs) != n {
				return fmt.Errorf("%s has %d entries, expected %d", goName, len(xs), n)
			}
			out += coqZList(coqName, xs)
			return nil
		}
		if err := emit("ZigZag", "jpeg_zigzag", 64); err != nil {
			return err
		}
		if err := emit("DefaultLuminanceQuantTable", "jpeg_qt_luma", 64); err != nil {
			return err
		}
		if err := emit("DefaultChrominanceQuantTable", "jpeg_qt_chroma", 64); err != nil {
			return err
		}

		// every <X>Bits / <X>Values pair of package-level variables
		var huff []string
		for _, name := range dctPkgVarNames(std) {
			if !strings.HasSuffix(name, "Bits") {
				continue
			}
			base := strings.TrimSuffix(name, "Bits")
			if std.findVarValue(base+"Values") == nil {
				continue
			}
			bits, err := std.intTable(name)
			if err != nil {
				return err
			}
			vals, err := std.intTable(base + "Values")
			if err != nil {
				return err
			}
			if len(bits) != 16 {
				return fmt.Errorf("%s has %d entries, expected 16", name, len(bits))
			}
			cn := "jpeg_huff_" + dctSnake(base)
			out += coqZList(cn+"_bits", bits)
			out += coqZList(cn+"_vals", vals)
			huff = append(huff, cn)
		}
		if len(huff) < 4 {
			return fmt.Errorf("found only %d Huffman Bits/Values pairs in jpeg/standard", len(huff))
		}
		out += "Definition jpeg_huff_all : list (list Z * list Z) := [\n"
		for i, h := range huff {
			sep := ";"
			if i == len(huff)-1 {
				sep = ""
			}
			out += fmt.Sprintf("  (%s_bits, %s_vals)%s\n", h, h, sep)
		}
		out += "].\n"
		// the four tables the DCT encoders start from must be among them
		for _, need := range []string{"jpeg_huff_standard_dc_luminance", "jpeg_huff_standard_ac_luminance", "jpeg_huff_standard_dc_chrominance", "jpeg_huff_standard_ac_chrominance"} {
			ok := false
			for _, h := range huff {
				ok = ok || h == need
			}
			if !ok {
				return fmt.Errorf("table %s not found", need)
			}
		}

		// IJG constants (package level, dct_ijg.go)
		for _, c := range []string{"ijgConstBits", "ijgPass1Bits", "ijgFix0298631336", "ijgFix0390180644", "ijgFix0541196100",
			"ijgFix0765366865", "ijgFix0899976223", "ijgFix1175875602", "ijgFix1501321110", "ijgFix1847759065",
			"ijgFix1961570560", "ijgFix2053119869", "ijgFix2562915447", "ijgFix3072711026"} {
			e := std.findVarValue(c)
			if e == nil {
				return fmt.Errorf("constant %s not found", c)
			}
			v, err := std.constInt(e)
			if err != nil {
				return err
			}
			out += fmt.Sprintf("Definition %s : Z := %d%%Z.\n", dctSnake(c), v)
		}

		// 12-bit port: function-local constants of sequential12DCTISlow
		ext, err := loadPkg("jpeg/extended")
		if err != nil {
			return err
		}
		fn := dctFindFunc(ext, "sequential12DCTISlow")
		if fn == nil {
			return fmt.Errorf("jpeg/extended: sequential12DCTISlow not found")
		}
		lc := dctLocalConsts(ext, fn)
		for _, c := range []string{"constBits", "pass1Bits", "fix0298631336", "fix0390180644", "fix0541196100",
			"fix0765366865", "fix0899976223", "fix1175875602", "fix1501321110", "fix1847759065",
			"fix1961570560", "fix2053119869", "fix2562915447", "fix3072711026"} {
			v, ok := lc[c]
			if !ok {
				return fmt.Errorf("sequential12DCTISlow: local constant %s not found", c)
			}
			out += fmt.Sprintf("Definition seq12_%s : Z := %d%%Z.\n", dctSnake(c), v)
		}
		if e := ext.findVarValue("sequential12Precision"); e != nil {
			if v, err := ext.constInt(e); err == nil {
				out += fmt.Sprintf("Definition seq12_precision : Z := %d%%Z.\n", v)
			}
		}

		// colour conversion literals of jpeg/baseline in source order
		bl, err := loadPkg("jpeg/baseline")
		if err != nil {
			return err
		}
		for _, f := range []struct{ goName, coqName string }{{"rgbToYCbCr", "baseline_rgb2ycc_lits"}, {"ycbcrToRGB", "baseline_ycc2rgb_lits"}} {
			fd := dctFindFunc(bl, f.goName)
			if fd == nil {
				return fmt.Errorf("jpeg/baseline: %s not found", f.goName)
			}
			out += coqZList(f.coqName, dctIntLits(fd))
		}
		writeIfChanged("JpegTables_gen.v", []byte(out))
		return nil
	})
}

func dctPkgVarNames(p *Pkg) []string {
	var names []string
	for _, f := range p.Files {
		for _, d := range f.Decls {
			gd, ok := d.(*ast.GenDecl)
			if !ok || gd.Tok != token.VAR {
				continue
			}
			for _, s := range gd.Specs {
				if vs, ok := s.(*ast.ValueSpec); ok {
					for _, n := range vs.Names {
						names = append(names, n.Name)
					}
				}
			}
		}
	}
	sort.Strings(names)
	return names
}

// dctSnake: StandardDCLuminance -> standard_dc_luminance ; ijgFix0298631336 -> ijg_fix_0298631336
func dctSnake(s string) string {
	var sb strings.Builder
	rs := []rune(s)
	isUp := func(r rune) bool { return r >= 'A' && r <= 'Z' }
	isDig := func(r rune) bool { return r >= '0' && r <= '9' }
	for i, r := range rs {
		if i > 0 {
			prev := rs[i-1]
			switch {
			case isUp(r) && (!isUp(prev) || (i+1 < len(rs) && !isUp(rs[i+1]) && !isDig(rs[i+1]))):
				sb.WriteByte('_')
			case isDig(r) && !isDig(prev):
				sb.WriteByte('_')
			}
		}
		sb.WriteString(strings.ToLower(string(r)))
	}
	return sb.String()
}

func dctFindFunc(p *Pkg, name string) *ast.FuncDecl {
	for _, f := range p.Files {
		for _, d := range f.Decls {
			if fd, ok := d.(*ast.FuncDecl); ok && fd.Name.Name == name && fd.Body != nil {
				return fd
			}
		}
	}
	return nil
}

func dctLocalConsts(p *Pkg, fd *ast.FuncDecl) map[string]int64 {
	out := map[string]int64{}
	ast.Inspect(fd.Body, func(n ast.Node) bool {
		gd, ok := n.(*ast.GenDecl)
		if !ok || gd.Tok != token.CONST {
			return true
		}
		for _, s := range gd.Specs {
			vs := s.(*ast.ValueSpec)
			for _, id := range vs.Names {
				if obj, ok := p.Info.Defs[id]; ok && obj != nil {
					if c, ok := obj.(interface{ Val() constant.Value }); ok {
						if v, ok := constant.Int64Val(constant.ToInt(c.Val())); ok {
							out[id.Name] = v
						}
					}
				}
			}
		}
		return true
	})
	return out
}

// dctIntLits lists the integer literals of a function body in source order.
func dctIntLits(fd *ast.FuncDecl) []int64 {
	var out []int64
	ast.Inspect(fd.Body, func(n ast.Node) bool {
		if bl, ok := n.(*ast.BasicLit); ok && bl.Kind == token.INT {
			v := constant.MakeFromLiteral(bl.Value, token.INT, 0)
			if x, ok := constant.Int64Val(v); ok {
				out = append(out, x)
			}
		}
		return true
	})
	return out
}
