package main

import (
	"fmt"
	"go/ast"
	"go/constant"
	"go/importer"
	"go/parser"
	"go/token"
	"go/types"
	"os"
	"path/filepath"
	"sort"
	"strings"
)

// Pkg is one parsed and type-checked package directory of /repo (non-test files).
type Pkg struct {
	Dir   string
	Fset  *token.FileSet
	Files []*ast.File
	Info  *types.Info
	Types *types.Package
}

var pkgCache = map[string]*Pkg{}

// one FileSet and one source importer shared by all packages: the importer caches every
// dependency it type-checks, so the standard library is checked once per run
var sharedFset = token.NewFileSet()
var sharedImporter types.Importer

// loadPkg parses all non-test .go files (without build-tagged verif files) in repo/dir and
// type-checks them leniently (imports resolved from source when possible, errors ignored),
// which is enough to evaluate constant expressions.
func loadPkg(dir string) (*Pkg, error) {
	if p, ok := pkgCache[dir]; ok {
		return p, nil
	}
	full := filepath.Join(repo, dir)
	fset := sharedFset
	ents, err := os.ReadDir(full)
	if err != nil {
		return nil, err
	}
	var files []*ast.File
	for _, e := range ents {
		n := e.Name()
		if e.IsDir() || !strings.HasSuffix(n, ".go") || strings.HasSuffix(n, "_test.go") {
			continue
		}
		src, err := os.ReadFile(filepath.Join(full, n))
		if err != nil {
			return nil, err
		}
		if strings.Contains(string(src[:min(len(src), 400)]), "//go:build verif") || strings.Contains(string(src[:min(len(src), 400)]), "//go:build ignore") {
			continue
		}
		f, err := parser.ParseFile(fset, filepath.Join(full, n), src, parser.ParseComments)
		if err != nil {
			return nil, err
		}
		files = append(files, f)
	}
	if len(files) == 0 {
		return nil, fmt.Errorf("no go files in %s", dir)
	}
	// several packages may share a directory (e.g. package main helpers); keep the majority name
	cnt := map[string]int{}
	for _, f := range files {
		cnt[f.Name.Name]++
	}
	best := ""
	for n, c := range cnt {
		if c > cnt[best] || best == "" {
			best = n
		}
	}
	var keep []*ast.File
	for _, f := range files {
		if f.Name.Name == best {
			keep = append(keep, f)
		}
	}
	info := &types.Info{Types: map[ast.Expr]types.TypeAndValue{}, Defs: map[*ast.Ident]types.Object{}, Uses: map[*ast.Ident]types.Object{}, Selections: map[*ast.SelectorExpr]*types.Selection{}}
	if sharedImporter == nil {
		sharedImporter = importer.ForCompiler(sharedFset, "source", nil)
	}
	conf := types.Config{Importer: sharedImporter, Error: func(error) {}, FakeImportC: true}
	tp, _ := conf.Check(dir, fset, keep, info)
	p := &Pkg{Dir: dir, Fset: fset, Files: keep, Info: info, Types: tp}
	pkgCache[dir] = p
	return p, nil
}

// findVarValue returns the initialiser expression of package-level var/const `name`.
func (p *Pkg) findVarValue(name string) ast.Expr {
	for _, f := range p.Files {
		for _, d := range f.Decls {
			gd, ok := d.(*ast.GenDecl)
			if !ok {
				continue
			}
			for _, s := range gd.Specs {
				vs, ok := s.(*ast.ValueSpec)
				if !ok {
					continue
				}
				for i, n := range vs.Names {
					if n.Name == name && i < len(vs.Values) {
						return vs.Values[i]
					}
				}
			}
		}
	}
	return nil
}

// constInt evaluates a constant integer expression.
func (p *Pkg) constInt(e ast.Expr) (int64, error) {
	if tv, ok := p.Info.Types[e]; ok && tv.Value != nil {
		if v, ok := constant.Int64Val(constant.ToInt(tv.Value)); ok {
			return v, nil
		}
	}
	return 0, fmt.Errorf("%s: not a constant integer", p.Fset.Position(e.Pos()))
}

// intTable evaluates a (possibly nested, possibly keyed) composite literal of integers to a
// flat list in index order. Struct literals are flattened field by field.
func (p *Pkg) intTable(name string) ([]int64, error) {
	e := p.findVarValue(name)
	if e == nil {
		return nil, fmt.Errorf("package %s: variable %s not found", p.Dir, name)
	}
	var out []int64
	if err := p.flatten(e, &out); err != nil {
		return nil, fmt.Errorf("%s.%s: %v", p.Dir, name, err)
	}
	return out, nil
}

func (p *Pkg) flatten(e ast.Expr, out *[]int64) error {
	switch x := e.(type) {
	case *ast.CompositeLit:
		// keyed array literals: place by index
		type kv struct {
			idx int64
			e   ast.Expr
		}
		var items []kv
		next := int64(0)
		keyed := false
		for _, el := range x.Elts {
			if k, ok := el.(*ast.KeyValueExpr); ok {
				if idx, err := p.constInt(k.Key); err == nil {
					items = append(items, kv{idx, k.Value})
					next = idx + 1
					keyed = true
					continue
				}
				// struct field key: keep source order
				items = append(items, kv{next, k.Value})
				next++
				continue
			}
			items = append(items, kv{next, el})
			next++
		}
		if keyed {
			sort.SliceStable(items, func(i, j int) bool { return items[i].idx < items[j].idx })
			pos := int64(0)
			for _, it := range items {
				for pos < it.idx {
					*out = append(*out, 0)
					pos++
				}
				if err := p.flatten(it.e, out); err != nil {
					return err
				}
				pos++
			}
			return nil
		}
		for _, it := range items {
			if err := p.flatten(it.e, out); err != nil {
				return err
			}
		}
		return nil
	case *ast.UnaryExpr, *ast.BasicLit, *ast.BinaryExpr, *ast.Ident, *ast.CallExpr, *ast.ParenExpr, *ast.SelectorExpr:
		v, err := p.constInt(e)
		if err != nil {
			return err
		}
		*out = append(*out, v)
		return nil
	}
	return fmt.Errorf("%s: unsupported literal element %T", p.Fset.Position(e.Pos()), e)
}

// coqZList renders `Definition name : list Z := [...]%Z.`
func coqZList(name string, xs []int64) string {
	var sb strings.Builder
	fmt.Fprintf(&sb, "Definition %s : list Z := [", name)
	for i, x := range xs {
		if i > 0 {
			sb.WriteString("; ")
		}
		if i%16 == 0 {
			sb.WriteString("\n  ")
		}
		if x < 0 {
			fmt.Fprintf(&sb, "(%d)", x)
		} else {
			fmt.Fprintf(&sb, "%d", x)
		}
	}
	sb.WriteString("]%Z.\n")
	return sb.String()
}

const genHeader = "(* EXTRACT *)\n(* GENERATED by harness/cmd/gen from /repo on every run — do not edit. *)\nFrom Coq Require Import ZArith List.\nImport ListNotations.\n\n"

func min(a, b int) int {
	if a < b {
		return a
	}
	return b
}
