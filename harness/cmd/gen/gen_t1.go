package main

import (
	"fmt"
	"go/constant"
	"go/types"
	"strings"
)

// coqZRows renders a long table as a concatenation of 16-element rows (coqc parses one
// 2048-element list literal in ~30 s, 128 rows of 16 in ~4 s); the definition is normalised
// by vm_compute so it is the same plain list.
func coqZRows(name string, xs []int64) string {
	var sb strings.Builder
	fmt.Fprintf(&sb, "Definition %s : list Z := Eval vm_compute in concat [", name)
	for i, x := range xs {
		switch {
		case i == 0:
			sb.WriteString("\n  [")
		case i%16 == 0:
			sb.WriteString("];\n  [")
		default:
			sb.WriteString("; ")
		}
		if x < 0 {
			fmt.Fprintf(&sb, "(%d)", x)
		} else {
			fmt.Fprintf(&sb, "%d", x)
		}
	}
	sb.WriteString("]]%Z.\n")
	return sb.String()
}

// EBCOT tier-1 context tables and constants (jpeg2000/t1/context.go, nmsedec.go).
//
//	lutCtxnoZc [2048]  zero-coding context per (orientation*512 + 9-bit neighbour significance)
//	lutCtxnoSc [256]   sign-coding context per 8-bit (significance, sign) index of the 4 neighbours
//	lutSpb     [256]   sign prediction (XOR) bit, same index
//
// plus every named constant the model uses (flag bits, context labels, style bits, fractional
// bits), so a changed constant changes the generated file and the theorems are re-proved
// against it.
func init() {
	register("t1", func() error {
		p, err := loadPkg("jpeg2000/t1")
		if err != nil {
			return err
		}
		out := genHeader
		out += "(* jpeg2000/t1/context.go *)\n"
		for _, t := range []struct {
			goName, coqName string
			n               int
		}{{"lutCtxnoZc", "t1_lut_zc", 2048}, {"lutCtxnoSc", "t1_lut_sc", 256}, {"lutSpb", "t1_lut_spb", 256}} {
			xs, err := p.intTable(t.goName)
			if err != nil {
				return err
			}
			if len(xs) != t.n {
				return fmt.Errorf("%s has %d entries, expected %d", t.goName, len(xs), t.n)
			}
			out += coqZRows(t.coqName, xs)
		}
		for _, c := range []string{
			"CTXZCSTART", "CTXZCEND", "CTXSCSTART", "CTXSCEND", "CTXMRSTART", "CTXMREND", "CTXRL", "CTXUNI", "NUMCONTEXTS",
			"CblkStyleLazy", "CblkStyleReset", "CblkStyleTermAll", "CblkStyleVSC", "CblkStylePterm", "CblkStyleSegsym",
			"T1Sig", "T1Refine", "T1Visit",
			"T1SigN", "T1SigS", "T1SigW", "T1SigE", "T1SigNW", "T1SigNE", "T1SigSW", "T1SigSE", "T1SigNeighbors",
			"T1Sign", "T1SignN", "T1SignS", "T1SignW", "T1SignE",
			"t1NMSEDecFracBits"} {
			obj := p.Types.Scope().Lookup(c)
			k, ok := obj.(*types.Const)
			if !ok {
				return fmt.Errorf("jpeg2000/t1: constant %s not found", c)
			}
			v, ok := constant.Int64Val(constant.ToInt(k.Val()))
			if !ok {
				return fmt.Errorf("jpeg2000/t1: constant %s is not an integer", c)
			}
			out += fmt.Sprintf("Definition t1c_%s : Z := %d%%Z.\n", c, v)
		}
		writeIfChanged("T1Tables_gen.v", []byte(out))
		return nil
	})
}
