package main

import "fmt"

// MQ coder probability state tables (jpeg2000/mqc/mqc.go).
func init() {
	register("mq", func() error {
		p, err := loadPkg("jpeg2000/mqc")
		if err != nil {
			return err
		}
		out := genHeader
		for _, t := range []struct{ goName, coqName string }{
			{"qeTable", "mq_qe"}, {"nmpsTable", "mq_nmps"}, {"nlpsTable", "mq_nlps"}, {"switchTable", "mq_switch"}} {
			xs, err := p.intTable(t.goName)
			if err != nil {
				return err
			}
			if len(xs) != 47 {
				return fmt.Errorf("%s has %d entries, expected 47", t.goName, len(xs))
			}
			out += coqZList(t.coqName, xs)
		}
		writeIfChanged("MQTables_gen.v", []byte(out))
		return nil
	})
}
