package main

func genTables() {}
