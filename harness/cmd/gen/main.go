// vgen: the translator. Reads /repo's current sources (go/parser) and regenerates the Coq
// files under coq/Gen: constant tables the theorems quantify over, and structural facts
// (write sites of package-level variables and receiver fields). Files are rewritten only
// when their content changed, so an unchanged tree causes no Coq rebuild.
package main

import (
	"bytes"
	"flag"
	"fmt"
	"os"
	"path/filepath"
)

var repo, outDir string

func writeIfChanged(name string, content []byte) {
	p := filepath.Join(outDir, name)
	old, err := os.ReadFile(p)
	if err == nil && bytes.Equal(old, content) {
		return
	}
	if err := os.WriteFile(p, content, 0o644); err != nil {
		fmt.Fprintln(os.Stderr, "write", p, err)
		os.Exit(1)
	}
	fmt.Println("regenerated", name)
}

func main() {
	flag.StringVar(&repo, "repo", "/repo", "repository root")
	flag.StringVar(&outDir, "out", "/verif/coq/Gen", "output directory")
	flag.Parse()
	_ = os.MkdirAll(outDir, 0o755)
	genTables()
	genFacts()
}
