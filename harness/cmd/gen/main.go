// vgen: the translator. Reads /repo's current sources (go/parser, go/types) and regenerates
// the Coq files under coq/Gen: constant tables the theorems quantify over, and structural
// facts (write sites of package-level variables and receiver fields). Files are rewritten
// only when their content changed, so an unchanged tree causes no Coq rebuild.
// Each area adds a file gen_<area>.go with `func init() { register("<area>", fn) }`.
package main

import (
	"bytes"
	"flag"
	"fmt"
	"os"
	"path/filepath"
	"sort"
)

var repo, outDir string

type genFn func() error

var gens = map[string]genFn{}

func register(name string, f genFn) { gens[name] = f }

func writeIfChanged(name string, content []byte) {
	p := filepath.Join(outDir, name)
	old, err := os.ReadFile(p)
	if err == nil && bytes.Equal(old, content) {
		return
	}
	if err := os.WriteFile(p, content, 0o644); err != nil {
		fmt.Fprintln(os.Stderr, "write", p, err)
		os.Exit(1)
	}
	fmt.Println("regenerated", name)
}

func main() {
	flag.StringVar(&repo, "repo", "/repo", "repository root")
	flag.StringVar(&outDir, "out", "/verif/coq/Gen", "output directory")
	only := flag.String("only", "", "run only this generator")
	flag.Parse()
	_ = os.MkdirAll(outDir, 0o755)
	var names []string
	for n := range gens {
		names = append(names, n)
	}
	sort.Strings(names)
	failed := false
	for _, n := range names {
		if *only != "" && *only != n {
			continue
		}
		if err := gens[n](); err != nil {
			// A generator that cannot find its table (renamed, reshaped) writes nothing; the
			// dependent Coq file then fails to build and bin/check reports the broken tie.
			fmt.Fprintf(os.Stderr, "generator %s: %v\n", n, err)
			failed = true
		}
	}
	if failed {
		os.Exit(1)
	}
}
