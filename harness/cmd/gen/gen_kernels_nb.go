package main

import (
	"fmt"
	"go/ast"
)

// Neighbour selection of the JPEG-LS coders (T.87 edge rules): getNeighbors (one component)
// and sampleNeighbors (sample interleaved) of jpegls/lossless and jpegls/nearlossless,
// translated by the kernel translator (gen_kernels.go) -> coq/Gen/KernelsNb_gen.v.
// Tie theorems: coq/Tie/TieNb*.v, Props/C03_nb.v, Props/C07_nb.v.

// The translator's ifStmt binds the variables assigned by an if WITHOUT return as a let of a tuple, so a
// bounds check inside such an if (else None) is ill-typed.  An if WITH a return is translated by
// duplicating the continuation into both branches, which is well-typed for option-valued functions.
// nbDistribute performs that duplication on the AST, before the translator runs:
//
//	if c { A } else { B }; rest      ==>      if c { A; rest } else { B; rest }
//
// for every if that has no return but indexes a slice inside its branches (rest ends with the function's
// return statement; statement nodes are shared, not copied, so go/types information stays valid; block
// scoping is not changed for these functions: the only block-local names are `idx`, always (re)declared
// with := before use).  This is the identity on Go semantics.
func nbHasIndex(n ast.Node) bool {
	found := false
	if n == nil {
		return false
	}
	ast.Inspect(n, func(m ast.Node) bool {
		if _, ok := m.(*ast.IndexExpr); ok {
			found = true
		}
		return !found
	})
	return found
}

func nbDistribute(stmts []ast.Stmt) []ast.Stmt {
	for i, s := range stmts {
		x, ok := s.(*ast.IfStmt)
		if !ok {
			continue
		}
		inBranches := nbHasIndex(x.Body) || (x.Else != nil && nbHasIndex(x.Else))
		if !inBranches {
			continue
		}
		rest := stmts[i+1:]
		if hasReturn(x) && len(rest) == 0 {
			// already in continuation form: only recurse into the branches
			nx := &ast.IfStmt{If: x.If, Init: x.Init, Cond: x.Cond, Body: &ast.BlockStmt{List: nbDistribute(x.Body.List)}}
			switch e := x.Else.(type) {
			case *ast.BlockStmt:
				nx.Else = &ast.BlockStmt{List: nbDistribute(e.List)}
			case *ast.IfStmt:
				nx.Else = &ast.BlockStmt{List: nbDistribute([]ast.Stmt{e})}
			}
			return append(append([]ast.Stmt{}, stmts[:i]...), nx)
		}
		body := append(append([]ast.Stmt{}, x.Body.List...), rest...)
		var els []ast.Stmt
		switch e := x.Else.(type) {
		case *ast.BlockStmt:
			els = append(els, e.List...)
		case *ast.IfStmt:
			els = append(els, e)
		}
		els = append(els, rest...)
		nx := &ast.IfStmt{If: x.If, Init: x.Init, Cond: x.Cond,
			Body: &ast.BlockStmt{List: nbDistribute(body)},
			Else: &ast.BlockStmt{List: nbDistribute(els)}}
		return append(append([]ast.Stmt{}, stmts[:i]...), nx)
	}
	return stmts
}

func nbPrepare(specs []kernelSpec) error {
	g := &kgen{}
	for _, s := range specs {
		p, err := loadFactsPkg(s.Dir)
		if err != nil {
			return err
		}
		fd := g.findDecl(p, s.Recv, s.Name)
		if fd == nil {
			return fmt.Errorf("kernels_nb: %s.%s not found in %s", s.Recv, s.Name, s.Dir)
		}
		fd.Body.List = nbDistribute(fd.Body.List)
	}
	return nil
}

func init() {
	register("kernels_nb", func() error {
		specs := []kernelSpec{
			{"jpegls/lossless", "Encoder", "getNeighbors", 0},
			{"jpegls/lossless", "Encoder", "sampleNeighbors", 0},
			{"jpegls/lossless", "Decoder", "getNeighbors", 0},
			{"jpegls/lossless", "Decoder", "sampleNeighbors", 0},
			{"jpegls/nearlossless", "Encoder", "getNeighbors", 0},
			{"jpegls/nearlossless", "Encoder", "sampleNeighbors", 0},
			{"jpegls/nearlossless", "Decoder", "getNeighbors", 0},
			{"jpegls/nearlossless", "Decoder", "sampleNeighbors", 0},
		}
		if err := nbPrepare(specs); err != nil {
			return err
		}
		return runKernels(specs, "KernelsNb_gen.v", "From V Require Import Tie.GoSem.")
	})
}
