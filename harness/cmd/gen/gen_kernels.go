package main

// Kernel translator: Go source -> Gallina.
//
// For a configured list of small integer functions of /repo this generator reads the function
// BODIES (go/ast + go/types) and emits one Gallina definition per function into
// coq/Gen/Kernels_gen.v.  coq/Tie/*.v then proves, for all arguments, that each generated
// definition equals the corresponding hand-written model function the property theorems are
// about — so those theorems are re-checked against what the code says now, not against what a
// sampled run observed.
//
// Supported subset (anything else makes the generator fail for that function, which breaks the
// dependent Coq file and is reported as a broken tie):
//   types       int / int64 / uint / uint64 (-> Z, NO wrap: the modelling convention of DESIGN §4 —
//               quantities stay far below 2^63), bool, int32/int16/int8/uint32/uint16/uint8 (-> Z with
//               an explicit wrapS n / wrapU n around every arithmetic result and conversion),
//               structs of such fields (-> Record), pointer receivers (the method returns the
//               updated record, after its declared results)
//   statements  :=, =, op=, ++, --, var, const, if/else (with init), switch (tag or tagless, no
//               fallthrough), return, for cond / for init;cond;post (no break/continue/return inside:
//               translated to a fuelled Fixpoint that returns None when the fuel runs out, which makes
//               the function return option), expression statements are rejected
//   expressions + - * / % & | ^ &^ << >> unary - ^ ! && || comparisons, field selectors, calls of other
//               configured functions, builtins min/max, conversions between the integer types above,
//               struct composite literals with field keys
//   Go `/` `%` -> Z.quot / Z.rem (truncating), `>>` -> Z.shiftr (arithmetic), `<<` -> Z.shiftl.
//
// The translator contains no reasoning; it is part of the trusted base (DESIGN "Trusted base").

import (
	"fmt"
	"go/ast"
	"go/constant"
	"go/token"
	"go/types"
	"sort"
	"strings"
)

type kernelSpec struct {
	Dir  string // package directory in /repo
	Recv string // receiver type name or ""
	Name string
	Fuel int // fuel for loops (0 = no loops expected)
}

// kernelFuelExpr: for loops whose trip count depends on a slice length the fuel is a Coq nat expression over the
// function's parameters (key: dir|recv|name), used instead of kernelSpec.Fuel
var kernelFuelExpr = map[string]string{
	"jpeg2000/colorspace||ApplyRCTToComponents":        "S (length r)",
	"jpeg2000/colorspace||ApplyInverseRCTToComponents": "S (length y)",
	"jpeg2000/wavelet||Forward53_1DWithParity":         "S (length data)",
	"jpeg2000/wavelet||Inverse53_1DWithParity":         "S (length data)",
}

func (s kernelSpec) fuelExpr() string { return kernelFuelExpr[kkey(s.Dir, s.Recv, s.Name)] }

// The configured kernels.  Order is irrelevant (sorted topologically by calls).
var kernelSpecs = []kernelSpec{
	{"jpegls/runmode", "", "Abs", 0},
	{"jpegls/runmode", "", "IncrementRunIndex", 0},
	{"jpegls/runmode", "", "DecrementRunIndex", 0},
	{"jpegls/lossless", "Traits", "ComputeReconstructedSample", 0},
	{"jpegls/lossless", "Traits", "fixReconstructedValue", 0},
	{"jpegls/lossless", "Traits", "dequantize", 0},
	{"jpegls/lossless", "Traits", "correctPrediction", 0},
	{"jpegls/lossless", "Traits", "CorrectPrediction", 0},
	{"jpegls/lossless", "Traits", "ModuloRange", 0},
	{"jpegls/lossless", "Traits", "MapErrorValue", 0},
	{"jpegls/lossless", "Traits", "UnmapErrorValue", 0},
	{"jpegls/lossless", "Traits", "QuantizeGradient", 0},
	{"jpegls/lossless", "Traits", "IsNear", 0},
	{"jpegls/lossless", "Traits", "ComputeErrorValue", 0},
	{"jpegls/lossless", "Traits", "quantize", 0},
	{"jpegls/lossless", "", "Predict", 0},
	{"jpegls/lossless", "Context", "ComputeGolombParameter", 17},
	{"jpegls/lossless", "Context", "UpdateContext", 0},
	{"jpegls/lossless", "Context", "GetErrorCorrection", 0},
	{"jpegls/lossless", "", "ComputeCodingParameters", 0},
	{"jpegls/lossless", "", "computeThresholds", 0},
	{"jpegls/lossless", "", "bitsLen", 64},
	{"jpegls/lossless", "", "clamp", 0},
	{"jpegls/lossless", "", "ComputeContextID", 0},
	{"jpegls/lossless", "", "BitwiseSign", 0},
	{"jpegls/lossless", "", "ApplySign", 0},
	{"jpeg/lossless", "", "Predictor", 0},
	{"jpegls/lossless", "", "MapErrorValue", 0},
	{"jpegls/lossless", "", "UnmapErrorValue", 0},
	{"jpegls/lossless", "GradientQuantizer", "quantizeGradient", 0},
	{"jpegls/lossless", "GradientQuantizer", "ComputeContext", 0},
	{"jpeg/lossless", "", "diffCategory", 64},
	{"jpeg/lossless14sv1", "", "diffCategory", 64},
	{"jpeg/baseline", "", "huffmanCategory", 64},
	{"jpeg/extended", "", "sequential12Category", 64},
	{"jpeg2000/colorspace", "", "RCTForward", 0},
	{"jpeg2000/colorspace", "", "RCTInverse", 0},
}

type kfunc struct {
	spec   kernelSpec
	pkg    *Pkg
	decl   *ast.FuncDecl
	coq    string // Gallina name
	calls  map[string]bool
	opt    bool // returns option (contains a loop or calls an option function)
	out    string
	recvNm string
	ptr    bool
	named  []string // named results (a bare return returns them)
	// parameters of slice type; those written through (s[i] = v, copy(s[a:], ..)) are returned, updated, after
	// the declared results, in parameter order (the caller sees the update through the shared backing array)
	paramSlices map[string]bool
	paramOrder  []string
	mutated     map[string]bool
}

func (k *kfunc) noteMutated(n string) {
	if k.mutated == nil {
		k.mutated = map[string]bool{}
	}
	k.mutated[n] = true
}

type kgen struct {
	funcs   map[string]*kfunc // key: dir|recv|name
	structs map[string]*types.Struct
	sorder  []string
	aux     []string // auxiliary loop Fixpoints emitted before the current function
	cur     *kfunc
	loopN   int
	err     error
}

func kkey(dir, recv, name string) string { return dir + "|" + recv + "|" + name }

func pkgAlias(dir string) string {
	return strings.NewReplacer("/", "_", "-", "_").Replace(dir)
}

var coqReserved = map[string]bool{"at": true, "in": true, "end": true, "as": true, "fun": true, "fix": true, "return": true,
	"if": true, "then": true, "else": true, "let": true, "match": true, "with": true, "forall": true, "exists": true,
	"Type": true, "Set": true, "Prop": true, "cofix": true, "for": true, "where": true, "using": true, "IF": true, "mod": true, "max": true, "min": true}

func cid(n string) string {
	if coqReserved[n] {
		return n + "_"
	}
	if n == "_" {
		return "_"
	}
	return n
}

func (g *kgen) fail(pos token.Pos, format string, a ...any) {
	if g.err == nil {
		g.err = fmt.Errorf("%s: %s", g.cur.pkg.Fset.Position(pos), fmt.Sprintf(format, a...))
	}
}

// ---- types ----

type kty struct {
	kind   string // "Z", "bool", "struct"
	bits   int    // 0 = no wrap
	signed bool
	sname  string
}

func (g *kgen) tyOf(t types.Type, pos token.Pos) kty {
	switch u := t.Underlying().(type) {
	case *types.Basic:
		switch u.Kind() {
		case types.Bool, types.UntypedBool:
			return kty{kind: "bool"}
		case types.Int, types.Int64, types.UntypedInt, types.Uint, types.Uint64:
			return kty{kind: "Z"}
		case types.Int32:
			return kty{kind: "Z", bits: 32, signed: true}
		case types.Int16:
			return kty{kind: "Z", bits: 16, signed: true}
		case types.Int8:
			return kty{kind: "Z", bits: 8, signed: true}
		case types.Uint32:
			return kty{kind: "Z", bits: 32}
		case types.Uint16:
			return kty{kind: "Z", bits: 16}
		case types.Uint8:
			return kty{kind: "Z", bits: 8}
		}
	case *types.Struct:
		if n, ok := t.(*types.Named); ok {
			if n.Obj().Pkg() == nil {
				g.fail(pos, "struct without package: %s", n)
				return kty{kind: "Z"}
			}
			// named after the package that declares it (for a struct of the current package this is g.cur.pkg.Dir)
			nm := pkgAlias(strings.TrimPrefix(n.Obj().Pkg().Path(), "github.com/cocosip/go-dicom-codecs/")) + "_" + n.Obj().Name()
			if _, seen := g.structs[nm]; !seen {
				g.structs[nm] = u
				for _, fld := range kfields(u) { // struct-typed fields are declared before their container
					g.tyOf(fld.Type(), pos)
				}
				g.sorder = append(g.sorder, nm)
			}
			return kty{kind: "struct", sname: nm}
		}
	case *types.Pointer:
		return g.tyOf(u.Elem(), pos)
	case *types.Slice:
		et := g.tyOf(u.Elem(), pos)
		if et.kind == "Z" {
			return kty{kind: "list", bits: et.bits, signed: et.signed}
		}
	}
	g.fail(pos, "unsupported type %s", t)
	return kty{kind: "Z"}
}

// kfields: the fields of a struct that the translation keeps.  Fields of a type outside the subset
// (slices, maps, pointers, interfaces, functions, arrays ...) are omitted from the Record; a kernel that
// touches such a field is rejected where it uses it (unsupported type / unsupported selector).
func kfields(st *types.Struct) []*types.Var {
	var out []*types.Var
	for i := 0; i < st.NumFields(); i++ {
		f := st.Field(i)
		ok := false
		switch u := f.Type().Underlying().(type) {
		case *types.Basic:
			switch u.Kind() {
			case types.Bool, types.Int, types.Int64, types.Uint, types.Uint64, types.Int32, types.Int16, types.Int8,
				types.Uint32, types.Uint16, types.Uint8:
				ok = true
			}
		case *types.Struct:
			_, ok = f.Type().(*types.Named)
		}
		if ok {
			out = append(out, f)
		}
	}
	return out
}

func (k kty) coq() string {
	switch k.kind {
	case "bool":
		return "bool"
	case "struct":
		return k.sname
	case "list":
		return "(list Z)"
	}
	return "Z"
}

func (k kty) wrap(e string) string {
	if k.kind != "Z" || k.bits == 0 {
		return e
	}
	if k.signed {
		return fmt.Sprintf("(wrapS %d %s)", k.bits, e)
	}
	return fmt.Sprintf("(wrapU %d %s)", k.bits, e)
}

// ---- expressions ----

func (g *kgen) typeOfExpr(e ast.Expr) types.Type {
	if tv, ok := g.cur.pkg.Info.Types[e]; ok && tv.Type != nil {
		return tv.Type
	}
	if id, ok := e.(*ast.Ident); ok {
		if o := g.cur.pkg.Info.Uses[id]; o != nil {
			return o.Type()
		}
		if o := g.cur.pkg.Info.Defs[id]; o != nil {
			return o.Type()
		}
	}
	g.fail(e.Pos(), "no type for expression")
	return types.Typ[types.Int]
}

// struct-typed local variables / receivers are kept as one let-bound name per field
func fieldVar(v, f string) string { return v + "_" + f }

func (g *kgen) expr(e ast.Expr) string {
	info := g.cur.pkg.Info
	if tv, ok := info.Types[e]; ok && tv.Value != nil {
		switch tv.Value.Kind() {
		case constant.Int:
			s := tv.Value.ExactString()
			if strings.HasPrefix(s, "-") {
				return "(" + s + ")"
			}
			return s
		case constant.Bool:
			if constant.BoolVal(tv.Value) {
				return "true"
			}
			return "false"
		}
	}
	switch x := e.(type) {
	case *ast.ParenExpr:
		return g.expr(x.X)
	case *ast.Ident:
		if x.Name == "true" || x.Name == "false" {
			return x.Name
		}
		t := g.tyOf(g.typeOfExpr(x), x.Pos())
		if t.kind == "struct" {
			st := g.structs[t.sname]
			var fs []string
			for _, fld := range kfields(st) {
				fs = append(fs, fieldVar(cid(x.Name), fld.Name()))
			}
			return "(mk_" + t.sname + " " + strings.Join(fs, " ") + ")"
		}
		return cid(x.Name)
	case *ast.SelectorExpr:
		if id, ok := x.X.(*ast.Ident); ok {
			if _, isPkg := info.Uses[id].(*types.PkgName); !isPkg {
				t := g.tyOf(g.typeOfExpr(id), x.Pos())
				if t.kind == "struct" {
					kept := false
					for _, fld := range kfields(g.structs[t.sname]) {
						kept = kept || fld.Name() == x.Sel.Name
					}
					if !kept {
						g.fail(x.Pos(), "field %s has a type outside the subset", x.Sel.Name)
					}
					return fieldVar(cid(id.Name), x.Sel.Name)
				}
			}
		}
		// field of a struct-valued expression (e.g. a call result)
		t := g.tyOf(g.typeOfExpr(x.X), x.Pos())
		if t.kind == "struct" {
			return "(" + t.sname + "_" + x.Sel.Name + " " + g.expr(x.X) + ")"
		}
		g.fail(x.Pos(), "unsupported selector")
	case *ast.UnaryExpr:
		t := g.tyOf(g.typeOfExpr(x), x.Pos())
		a := g.expr(x.X)
		switch x.Op {
		case token.SUB:
			return t.wrap("(- " + a + ")")
		case token.ADD:
			return a
		case token.NOT:
			return "(negb " + a + ")"
		case token.XOR:
			return t.wrap("(Z.lnot " + a + ")")
		}
		g.fail(x.Pos(), "unsupported unary %s", x.Op)
	case *ast.BinaryExpr:
		t := g.tyOf(g.typeOfExpr(x), x.Pos())
		a, b := g.expr(x.X), g.expr(x.Y)
		bin := func(f string) string { return t.wrap("(" + f + " " + a + " " + b + ")") }
		inf := func(op string) string { return t.wrap("(" + a + " " + op + " " + b + ")") }
		// operators that cannot leave the range of the type when both operands are in range
		raw := func(f string) string { return "(" + f + " " + a + " " + b + ")" }
		switch x.Op {
		case token.ADD:
			return inf("+")
		case token.SUB:
			return inf("-")
		case token.MUL:
			return inf("*")
		case token.QUO:
			return bin("Z.quot")
		case token.REM:
			return raw("Z.rem")
		case token.AND:
			return raw("Z.land")
		case token.OR:
			return raw("Z.lor")
		case token.XOR:
			return raw("Z.lxor")
		case token.AND_NOT:
			return raw("Z.ldiff")
		case token.SHL:
			return bin("Z.shiftl")
		case token.SHR:
			return raw("Z.shiftr")
		case token.LAND:
			return "(" + a + " && " + b + ")"
		case token.LOR:
			return "(" + a + " || " + b + ")"
		}
		ot := g.tyOf(g.typeOfExpr(x.X), x.Pos())
		if ot.kind == "bool" {
			switch x.Op {
			case token.EQL:
				return "(Bool.eqb " + a + " " + b + ")"
			case token.NEQ:
				return "(negb (Bool.eqb " + a + " " + b + "))"
			}
		}
		switch x.Op {
		case token.EQL:
			return "(" + a + " =? " + b + ")"
		case token.NEQ:
			return "(negb (" + a + " =? " + b + "))"
		case token.LSS:
			return "(" + a + " <? " + b + ")"
		case token.LEQ:
			return "(" + a + " <=? " + b + ")"
		case token.GTR:
			return "(" + a + " >? " + b + ")"
		case token.GEQ:
			return "(" + a + " >=? " + b + ")"
		}
		g.fail(x.Pos(), "unsupported binary %s", x.Op)
	case *ast.IndexExpr:
		xt := g.tyOf(g.typeOfExpr(x.X), x.Pos())
		if xt.kind != "list" {
			g.fail(x.Pos(), "index of a non-slice")
			return "0"
		}
		// the bounds check is emitted in front of the statement (stmtGuards)
		return "(znth " + g.expr(x.X) + " " + g.expr(x.Index) + " 0)"
	case *ast.CallExpr:
		return g.call(x)
	case *ast.CompositeLit:
		t := g.tyOf(g.typeOfExpr(x), x.Pos())
		if t.kind != "struct" {
			g.fail(x.Pos(), "unsupported composite literal")
			return "0"
		}
		st := g.structs[t.sname]
		vals := map[string]string{}
		for _, el := range x.Elts {
			kv, ok := el.(*ast.KeyValueExpr)
			if !ok {
				g.fail(el.Pos(), "positional struct literal")
				return "0"
			}
			vals[kv.Key.(*ast.Ident).Name] = g.expr(kv.Value)
		}
		var fs []string
		for _, fld := range kfields(st) {
			f := fld
			if v, ok := vals[f.Name()]; ok {
				fs = append(fs, v)
			} else if g.tyOf(f.Type(), x.Pos()).kind == "bool" {
				fs = append(fs, "false")
			} else {
				fs = append(fs, "0")
			}
		}
		return "(mk_" + t.sname + " " + strings.Join(fs, " ") + ")"
	}
	g.fail(e.Pos(), "unsupported expression %T", e)
	return "0"
}

// call translates conversions, builtins and calls of configured kernels.  Calls of option-valued
// kernels are only allowed where stmt() handles them (assignment / return of the bare call).
func (g *kgen) call(x *ast.CallExpr) string {
	info := g.cur.pkg.Info
	if tv, ok := info.Types[x.Fun]; ok && tv.IsType() {
		if len(x.Args) != 1 {
			g.fail(x.Pos(), "conversion arity")
			return "0"
		}
		t := g.tyOf(tv.Type, x.Pos())
		return t.wrap(g.expr(x.Args[0]))
	}
	var args []string
	if id, ok := x.Fun.(*ast.Ident); ok && id.Name == "make" {
		if _, isB := info.Uses[id].(*types.Builtin); isB && len(x.Args) == 2 {
			if g.tyOf(g.typeOfExpr(x.Args[0]), x.Pos()).kind == "list" {
				return "(go_make " + g.expr(x.Args[1]) + ")"
			}
		}
	}
	for _, a := range x.Args {
		args = append(args, g.expr(a))
	}
	switch f := x.Fun.(type) {
	case *ast.Ident:
		if _, ok := info.Uses[f].(*types.Builtin); ok {
			switch f.Name {
			case "len":
				if g.tyOf(g.typeOfExpr(x.Args[0]), x.Pos()).kind == "list" {
					return "(zlen " + args[0] + ")"
				}
			case "make":
				if len(x.Args) == 2 && g.tyOf(g.typeOfExpr(x.Args[0]), x.Pos()).kind == "list" {
					return "(go_make " + g.expr(x.Args[1]) + ")"
				}
			}
			switch f.Name {
			case "max", "min":
				r := args[0]
				for _, a := range args[1:] {
					r = "(Z." + f.Name + " " + r + " " + a + ")"
				}
				return r
			}
			g.fail(x.Pos(), "unsupported builtin %s", f.Name)
			return "0"
		}
		k := g.funcs[kkey(g.cur.pkg.Dir, "", f.Name)]
		if k == nil {
			g.fail(x.Pos(), "call of a function that is not a configured kernel: %s", f.Name)
			return "0"
		}
		g.cur.calls[kkey(k.spec.Dir, k.spec.Recv, k.spec.Name)] = true
		return "(" + k.coq + " " + strings.Join(args, " ") + ")"
	case *ast.SelectorExpr:
		if id, ok := f.X.(*ast.Ident); ok {
			if pn, isPkg := info.Uses[id].(*types.PkgName); isPkg {
				path := pn.Imported().Path()
				const mod = "github.com/cocosip/go-dicom-codecs/"
				dir := strings.TrimPrefix(path, mod)
				k := g.funcs[kkey(dir, "", f.Sel.Name)]
				if k == nil {
					g.fail(x.Pos(), "call of %s.%s which is not a configured kernel", path, f.Sel.Name)
					return "0"
				}
				g.cur.calls[kkey(k.spec.Dir, k.spec.Recv, k.spec.Name)] = true
				return "(" + k.coq + " " + strings.Join(args, " ") + ")"
			}
		}
		// method call on a struct value
		rt := g.tyOf(g.typeOfExpr(f.X), x.Pos())
		if rt.kind == "struct" {
			base := strings.TrimPrefix(rt.sname, pkgAlias(g.cur.pkg.Dir)+"_")
			k := g.funcs[kkey(g.cur.pkg.Dir, base, f.Sel.Name)]
			if k == nil {
				g.fail(x.Pos(), "call of method %s.%s which is not a configured kernel", base, f.Sel.Name)
				return "0"
			}
			if k.ptr {
				g.fail(x.Pos(), "call of a pointer-receiver kernel inside an expression")
			}
			g.cur.calls[kkey(k.spec.Dir, k.spec.Recv, k.spec.Name)] = true
			return "(" + k.coq + " " + g.expr(f.X) + " " + strings.Join(args, " ") + ")"
		}
	}
	g.fail(x.Pos(), "unsupported call")
	return "0"
}

// copyArg splits an argument of copy() of the forms s, s[a:], s[a:b] into (slice identifier, low, high as Gallina
// terms); ok is false for any other form.
func (g *kgen) copyArg(e ast.Expr) (id *ast.Ident, low, high string, lowE, highE ast.Expr, ok bool) {
	switch x := e.(type) {
	case *ast.Ident:
		return x, "0", "(zlen " + cid(x.Name) + ")", nil, nil, true
	case *ast.SliceExpr:
		i, isId := x.X.(*ast.Ident)
		if !isId || x.Max != nil {
			return nil, "", "", nil, nil, false
		}
		low, high = "0", "(zlen "+cid(i.Name)+")"
		if x.Low != nil {
			low = g.expr(x.Low)
		}
		if x.High != nil {
			high = g.expr(x.High)
		}
		return i, low, high, x.Low, x.High, true
	}
	return nil, "", "", nil, nil, false
}

// ---- bounds checks of slices ----

// exprGuards collects the run-time checks Go performs while evaluating e: index in range, make length
// non-negative.  An indexed operand under the right side of && / || would be evaluated conditionally;
// that is outside the subset.
func (g *kgen) exprGuards(e ast.Expr, conditional bool, out *[]string) {
	if e == nil {
		return
	}
	switch x := e.(type) {
	case *ast.ParenExpr:
		g.exprGuards(x.X, conditional, out)
	case *ast.IndexExpr:
		if conditional {
			g.fail(x.Pos(), "indexed operand evaluated conditionally (&&, ||)")
		}
		g.exprGuards(x.X, conditional, out)
		g.exprGuards(x.Index, conditional, out)
		i := g.expr(x.Index)
		*out = append(*out, "((0 <=? "+i+") && ("+i+" <? zlen "+g.expr(x.X)+"))")
	case *ast.UnaryExpr:
		g.exprGuards(x.X, conditional, out)
	case *ast.BinaryExpr:
		g.exprGuards(x.X, conditional, out)
		g.exprGuards(x.Y, conditional || x.Op == token.LAND || x.Op == token.LOR, out)
	case *ast.CallExpr:
		if id, ok := x.Fun.(*ast.Ident); ok && id.Name == "make" && len(x.Args) == 2 {
			if conditional {
				g.fail(x.Pos(), "make evaluated conditionally")
			}
			g.exprGuards(x.Args[1], conditional, out)
			*out = append(*out, "(0 <=? "+g.expr(x.Args[1])+")")
			return
		}
		for _, a := range x.Args {
			g.exprGuards(a, conditional, out)
		}
	case *ast.SelectorExpr:
		g.exprGuards(x.X, conditional, out)
	case *ast.CompositeLit:
		for _, el := range x.Elts {
			if kv, ok := el.(*ast.KeyValueExpr); ok {
				g.exprGuards(kv.Value, conditional, out)
			}
		}
	}
}

// stmtGuards: the checks of the expressions a statement evaluates itself (not its nested blocks)
func (g *kgen) stmtGuards(s ast.Stmt) []string {
	var out []string
	switch x := s.(type) {
	case *ast.AssignStmt:
		for _, r := range x.Rhs {
			g.exprGuards(r, false, &out)
		}
		for _, l := range x.Lhs {
			g.exprGuards(l, false, &out)
		}
	case *ast.IncDecStmt:
		g.exprGuards(x.X, false, &out)
	case *ast.ReturnStmt:
		for _, r := range x.Results {
			g.exprGuards(r, false, &out)
		}
	case *ast.DeclStmt:
		if gd, ok := x.Decl.(*ast.GenDecl); ok {
			for _, sp := range gd.Specs {
				if vs, ok := sp.(*ast.ValueSpec); ok {
					for _, v := range vs.Values {
						g.exprGuards(v, false, &out)
					}
				}
			}
		}
	case *ast.IfStmt:
		if x.Init == nil {
			g.exprGuards(x.Cond, false, &out)
		}
	case *ast.ExprStmt:
		if ce, ok := x.X.(*ast.CallExpr); ok {
			if id, ok := ce.Fun.(*ast.Ident); ok && id.Name == "copy" && len(ce.Args) == 2 {
				di, dl, dh, dlE, dhE, dok := g.copyArg(ce.Args[0])
				si, sl, sh, slE, shE, sok := g.copyArg(ce.Args[1])
				if dok && sok {
					for _, e := range []ast.Expr{dlE, dhE, slE, shE} {
						g.exprGuards(e, false, &out)
					}
					// slice expressions: 0 <= low <= high <= cap; the capacity of every slice is taken to be its length
					out = append(out, "((0 <=? "+dl+") && ("+dl+" <=? "+dh+") && ("+dh+" <=? zlen "+cid(di.Name)+"))")
					out = append(out, "((0 <=? "+sl+") && ("+sl+" <=? "+sh+") && ("+sh+" <=? zlen "+cid(si.Name)+"))")
				}
			}
		}
	}
	return out
}

func guarded(guards []string, body string) string {
	if len(guards) == 0 {
		return body
	}
	return "if " + strings.Join(guards, " && ") + " then (" + body + ")\n  else None"
}

// usesSlices: the function indexes or makes slices (its translation is option-valued: None = run-time panic)
func usesSlices(fd *ast.FuncDecl) bool {
	found := false
	ast.Inspect(fd.Body, func(n ast.Node) bool {
		switch x := n.(type) {
		case *ast.IndexExpr:
			found = true
		case *ast.CallExpr:
			if id, ok := x.Fun.(*ast.Ident); ok && id.Name == "make" {
				found = true
			}
		}
		return !found
	})
	return found
}

// ---- statements ----

type kvar struct {
	name string
	ty   kty
}

// scope: the variables currently in scope, in declaration order (struct variables expanded to fields)
type kscope []kvar

func (s kscope) has(n string) bool {
	for _, v := range s {
		if v.name == n {
			return true
		}
	}
	return false
}

func (g *kgen) expand(name string, t kty) []kvar {
	if t.kind != "struct" {
		return []kvar{{cid(name), t}}
	}
	st := g.structs[t.sname]
	var out []kvar
	for _, fld := range kfields(st) {
		out = append(out, kvar{fieldVar(cid(name), fld.Name()), g.tyOf(fld.Type(), token.NoPos)})
	}
	return out
}

// lhsVars: the scope variables an assignment target denotes
func (g *kgen) lhsVars(e ast.Expr) []kvar {
	switch x := e.(type) {
	case *ast.Ident:
		if x.Name == "_" {
			return nil
		}
		return g.expand(x.Name, g.tyOf(g.typeOfExpr(x), x.Pos()))
	case *ast.SelectorExpr:
		if id, ok := x.X.(*ast.Ident); ok {
			return []kvar{{fieldVar(cid(id.Name), x.Sel.Name), g.tyOf(g.typeOfExpr(x), x.Pos())}}
		}
	case *ast.IndexExpr:
		if id, ok := x.X.(*ast.Ident); ok {
			if t := g.tyOf(g.typeOfExpr(id), x.Pos()); t.kind == "list" {
				if g.cur.paramSlices[cid(id.Name)] {
					g.cur.noteMutated(cid(id.Name))
				}
				return []kvar{{cid(id.Name), t}}
			}
		}
	}
	g.fail(e.Pos(), "unsupported assignment target")
	return nil
}

func hasReturn(n ast.Node) bool {
	found := false
	ast.Inspect(n, func(m ast.Node) bool {
		if _, ok := m.(*ast.ReturnStmt); ok {
			found = true
		}
		return !found
	})
	return found
}

// assigned collects the scope variables (from sc) assigned anywhere inside n
func (g *kgen) assigned(n ast.Node, sc kscope) []kvar {
	set := map[string]bool{}
	add := func(e ast.Expr) {
		for _, v := range g.lhsVars(e) {
			set[v.name] = true
		}
	}
	ast.Inspect(n, func(m ast.Node) bool {
		switch s := m.(type) {
		case *ast.AssignStmt:
			if s.Tok != token.DEFINE {
				for _, l := range s.Lhs {
					add(l)
				}
			}
		case *ast.IncDecStmt:
			add(s.X)
		case *ast.ExprStmt:
			if ce, ok := s.X.(*ast.CallExpr); ok {
				if id, ok := ce.Fun.(*ast.Ident); ok && id.Name == "copy" && len(ce.Args) == 2 {
					if d, ok := ce.Args[0].(*ast.SliceExpr); ok {
						if di, ok := d.X.(*ast.Ident); ok {
							set[cid(di.Name)] = true
						}
					}
					if di, ok := ce.Args[0].(*ast.Ident); ok {
						set[cid(di.Name)] = true
					}
				}
			}
		}
		return true
	})
	var out []kvar
	for _, v := range sc {
		if set[v.name] {
			out = append(out, v)
		}
	}
	return out
}

func tuple(vs []kvar) string {
	if len(vs) == 0 {
		return "tt"
	}
	var n []string
	for _, v := range vs {
		n = append(n, v.name)
	}
	if len(n) == 1 {
		return n[0]
	}
	return "(" + strings.Join(n, ", ") + ")"
}

func pattern(vs []kvar) string {
	if len(vs) == 0 {
		return "_"
	}
	if len(vs) == 1 {
		return vs[0].name
	}
	return "'" + tuple(vs)
}

func tupleType(vs []kvar) string {
	if len(vs) == 0 {
		return "unit"
	}
	var n []string
	for _, v := range vs {
		n = append(n, v.ty.coq())
	}
	return "(" + strings.Join(n, " * ") + ")%type"
}

// ret wraps a finished result for option-valued functions
func (g *kgen) ret(e string) string {
	if g.cur.opt {
		return "Some " + e
	}
	return e
}

func (g *kgen) implicitReturn() string {
	// function end without return: only legal for functions without results
	if g.cur.decl.Type.Results != nil && len(g.cur.decl.Type.Results.List) > 0 && len(g.cur.named) == 0 {
		g.fail(g.cur.decl.End(), "missing return")
	}
	return g.ret(g.results(nil))
}

// results builds the returned value: declared results, then the updated receiver for pointer receivers
func (g *kgen) results(rs []ast.Expr) string {
	var parts []string
	for _, r := range rs {
		parts = append(parts, g.expr(r))
	}
	if len(rs) == 0 {
		parts = append(parts, g.cur.named...)
	}
	for _, n := range g.cur.paramOrder {
		if g.cur.mutated[n] {
			parts = append(parts, n)
		}
	}
	if g.cur.ptr {
		rt := g.tyOf(g.typeOfExpr(g.cur.decl.Recv.List[0].Names[0]), token.NoPos)
		st := g.structs[rt.sname]
		var fs []string
		for _, fld := range kfields(st) {
			fs = append(fs, fieldVar(g.cur.recvNm, fld.Name()))
		}
		parts = append(parts, "(mk_"+rt.sname+" "+strings.Join(fs, " ")+")")
	}
	if len(parts) == 0 {
		return "tt"
	}
	if len(parts) == 1 {
		return parts[0]
	}
	return "(" + strings.Join(parts, ", ") + ")"
}

func (g *kgen) letBind(vs []kvar, rhs string, rest string) string {
	if len(vs) == 0 {
		return rest
	}
	return "let " + pattern(vs) + " := " + rhs + " in\n  " + rest
}

// block translates stmts; tail() yields the term for "the block completed normally"
func (g *kgen) block(stmts []ast.Stmt, sc kscope, tail func(kscope) string) string {
	if g.err != nil {
		return "0"
	}
	if len(stmts) == 0 {
		return tail(sc)
	}
	s, rest := stmts[0], stmts[1:]
	cont := func(sc2 kscope) string { return g.block(rest, sc2, tail) }
	if gs := g.stmtGuards(s); len(gs) > 0 {
		if !g.cur.opt {
			g.fail(s.Pos(), "internal: bounds check in a total function")
		}
		return guarded(gs, g.stmt(s, rest, sc, tail, cont))
	}
	return g.stmt(s, rest, sc, tail, cont)
}

func (g *kgen) stmt(s ast.Stmt, rest []ast.Stmt, sc kscope, tail func(kscope) string, cont func(kscope) string) string {
	switch x := s.(type) {
	case *ast.ReturnStmt:
		return g.ret(g.results(x.Results))
	case *ast.BlockStmt:
		// inner declarations shadow only inside; keep it simple: translate inline
		return g.block(append(append([]ast.Stmt{}, x.List...), rest...), sc, tail)
	case *ast.EmptyStmt:
		return cont(sc)
	case *ast.DeclStmt:
		gd := x.Decl.(*ast.GenDecl)
		out := ""
		nsc := sc
		var binds []string
		for _, sp := range gd.Specs {
			vs, ok := sp.(*ast.ValueSpec)
			if !ok {
				g.fail(sp.Pos(), "unsupported declaration")
				return "0"
			}
			for i, n := range vs.Names {
				t := g.tyOf(g.typeOfExpr(n), n.Pos())
				val := "0"
				if t.kind == "bool" {
					val = "false"
				}
				if i < len(vs.Values) {
					val = g.expr(vs.Values[i])
				} else if t.kind == "struct" {
					g.fail(n.Pos(), "zero-valued struct variable")
				}
				if gd.Tok == token.CONST {
					// constants are folded by expr(); no binding needed
					continue
				}
				vv := g.expand(n.Name, t)
				if t.kind == "struct" {
					binds = append(binds, "let "+pattern([]kvar{{cid(n.Name) + "_tmp", t}})+" := "+val+" in\n  ")
					for _, f := range vv {
						fname := strings.TrimPrefix(f.name, cid(n.Name)+"_")
						binds = append(binds, "let "+f.name+" := "+t.sname+"_"+fname+" "+cid(n.Name)+"_tmp in\n  ")
					}
				} else {
					binds = append(binds, "let "+vv[0].name+" := "+val+" in\n  ")
				}
				nsc = append(append(kscope{}, nsc...), vv...)
			}
		}
		out = strings.Join(binds, "")
		return out + cont(nsc)
	case *ast.IncDecStmt:
		vs := g.lhsVars(x.X)
		t := g.tyOf(g.typeOfExpr(x.X), x.Pos())
		op := "+"
		if x.Tok == token.DEC {
			op = "-"
		}
		return g.letBind(vs, t.wrap("("+g.expr(x.X)+" "+op+" 1)"), cont(sc))
	case *ast.AssignStmt:
		return g.assign(x, sc, cont)
	case *ast.IfStmt:
		return g.ifStmt(x, sc, cont)
	case *ast.ExprStmt:
		// copy(dst[a:], src[b:c]) and its shorter forms
		if ce, ok := x.X.(*ast.CallExpr); ok {
			if id, ok := ce.Fun.(*ast.Ident); ok && id.Name == "copy" && len(ce.Args) == 2 {
				di, dl, dh, _, _, dok := g.copyArg(ce.Args[0])
				si, sl, sh, _, _, sok := g.copyArg(ce.Args[1])
				if dok && sok {
					dv := cid(di.Name)
					if g.cur.paramSlices[dv] {
						g.cur.noteMutated(dv)
					}
					return "let " + dv + " := go_copy " + dv + " " + dl + " " + dh + " " + cid(si.Name) + " " + sl + " " + sh + " in\n  " + cont(sc)
				}
			}
		}
		g.fail(s.Pos(), "unsupported expression statement")
		return "0"
	case *ast.SwitchStmt:
		return g.block(append([]ast.Stmt{g.switchToIf(x)}, rest...), sc, tail)
	case *ast.ForStmt:
		return g.forStmt(x, sc, cont)
	}
	g.fail(s.Pos(), "unsupported statement %T", s)
	return "0"
}

func (g *kgen) assign(x *ast.AssignStmt, sc kscope, cont func(kscope) string) string {
	nsc := sc
	if x.Tok == token.DEFINE || x.Tok == token.ASSIGN {
		// tuple assignment from one call, or parallel simple assignment
		var pats [][]kvar
		for _, l := range x.Lhs {
			vs := g.lhsVars(l)
			pats = append(pats, vs)
			if x.Tok == token.DEFINE {
				for _, v := range vs {
					if !nsc.has(v.name) {
						nsc = append(append(kscope{}, nsc...), v)
					}
				}
			}
		}
		if len(x.Rhs) == 1 && len(x.Lhs) > 1 {
			// multi-value call
			var names []string
			post := ""
			for i, p := range pats {
				if ie, ok := x.Lhs[i].(*ast.IndexExpr); ok && len(p) == 1 {
					tmp := fmt.Sprintf("idx_tmp%d", i)
					names = append(names, tmp)
					post += "let " + p[0].name + " := go_upd " + p[0].name + " " + g.expr(ie.Index) + " " + tmp + " in\n  "
				} else if len(p) == 1 {
					names = append(names, p[0].name)
				} else if len(p) == 0 {
					names = append(names, "_")
				} else {
					g.fail(x.Lhs[i].Pos(), "struct in tuple assignment")
				}
			}
			return g.bindCall(x.Rhs[0], "'("+strings.Join(names, ", ")+")", post+cont(nsc))
		}
		if len(x.Rhs) != len(x.Lhs) {
			g.fail(x.Pos(), "assignment arity")
			return "0"
		}
		if len(x.Lhs) == 1 {
			l, r := x.Lhs[0], x.Rhs[0]
			t := g.tyOf(g.typeOfExpr(l), l.Pos())
			if id, isId := l.(*ast.Ident); isId && id.Name == "_" {
				return cont(nsc)
			}
			if ie, ok := l.(*ast.IndexExpr); ok && len(pats[0]) == 1 {
				return "let " + pats[0][0].name + " := go_upd " + pats[0][0].name + " " + g.expr(ie.Index) + " " + g.expr(r) + " in\n  " + cont(nsc)
			}
			if t.kind == "struct" {
				id, ok := l.(*ast.Ident)
				if !ok {
					g.fail(l.Pos(), "struct-valued field assignment")
					return "0"
				}
				tmp := cid(id.Name) + "_tmp"
				out := ""
				for _, f := range pats[0] {
					fname := strings.TrimPrefix(f.name, cid(id.Name)+"_")
					out += "let " + f.name + " := " + t.sname + "_" + fname + " " + tmp + " in\n  "
				}
				return g.bindCall(r, tmp, out+cont(nsc))
			}
			return g.bindCall(r, pats[0][0].name, cont(nsc))
		}
		// parallel assignment a, b = e1, e2: evaluate all right sides first
		var tmps []string
		out := ""
		for i, r := range x.Rhs {
			tmp := fmt.Sprintf("par_tmp%d", i)
			tmps = append(tmps, tmp)
			out += "let " + tmp + " := " + g.expr(r) + " in\n  "
		}
		for i, p := range pats {
			if len(p) == 1 {
				out += "let " + p[0].name + " := " + tmps[i] + " in\n  "
			} else if len(p) > 1 {
				g.fail(x.Pos(), "struct in parallel assignment")
			}
		}
		return out + cont(nsc)
	}
	// op=
	if len(x.Lhs) != 1 {
		g.fail(x.Pos(), "op-assignment arity")
		return "0"
	}
	ops := map[token.Token]token.Token{token.ADD_ASSIGN: token.ADD, token.SUB_ASSIGN: token.SUB, token.MUL_ASSIGN: token.MUL,
		token.QUO_ASSIGN: token.QUO, token.REM_ASSIGN: token.REM, token.AND_ASSIGN: token.AND, token.OR_ASSIGN: token.OR,
		token.XOR_ASSIGN: token.XOR, token.SHL_ASSIGN: token.SHL, token.SHR_ASSIGN: token.SHR, token.AND_NOT_ASSIGN: token.AND_NOT}
	op, ok := ops[x.Tok]
	if !ok {
		g.fail(x.Pos(), "unsupported assignment operator")
		return "0"
	}
	be := &ast.BinaryExpr{X: x.Lhs[0], Op: op, Y: x.Rhs[0], OpPos: x.TokPos}
	// type of the synthetic expression = type of the target
	g.cur.pkg.Info.Types[be] = types.TypeAndValue{Type: g.typeOfExpr(x.Lhs[0])}
	vs := g.lhsVars(x.Lhs[0])
	if ie, ok := x.Lhs[0].(*ast.IndexExpr); ok && len(vs) == 1 {
		return "let " + vs[0].name + " := go_upd " + vs[0].name + " " + g.expr(ie.Index) + " " + g.expr(be) + " in\n  " + cont(sc)
	}
	return g.letBind(vs, g.expr(be), cont(sc))
}

// bindCall binds pat to the value of e; a direct call of an option-valued kernel is bound monadically
func (g *kgen) bindCall(e ast.Expr, pat string, rest string) string {
	if ce, ok := ast.Unparen(e).(*ast.CallExpr); ok {
		if k := g.calleeOf(ce); k != nil && k.opt {
			if !g.cur.opt {
				g.fail(e.Pos(), "internal: option callee in a total function")
			}
			return "match " + g.call(ce) + " with None => None | Some " + strings.TrimPrefix(pat, "'") + " =>\n  " + rest + " end"
		}
	}
	return "let " + pat + " := " + g.expr(e) + " in\n  " + rest
}

func (g *kgen) calleeOf(x *ast.CallExpr) *kfunc {
	info := g.cur.pkg.Info
	switch f := x.Fun.(type) {
	case *ast.Ident:
		return g.funcs[kkey(g.cur.pkg.Dir, "", f.Name)]
	case *ast.SelectorExpr:
		if id, ok := f.X.(*ast.Ident); ok {
			if pn, isPkg := info.Uses[id].(*types.PkgName); isPkg {
				dir := strings.TrimPrefix(pn.Imported().Path(), "github.com/cocosip/go-dicom-codecs/")
				return g.funcs[kkey(dir, "", f.Sel.Name)]
			}
		}
		if tv, ok := info.Types[f.X]; ok && tv.Type != nil {
			t := tv.Type
			if p, ok := t.Underlying().(*types.Pointer); ok {
				t = p.Elem()
			}
			if n, ok := t.(*types.Named); ok {
				return g.funcs[kkey(g.cur.pkg.Dir, n.Obj().Name(), f.Sel.Name)]
			}
		}
	}
	return nil
}

func (g *kgen) ifStmt(x *ast.IfStmt, sc kscope, cont func(kscope) string) string {
	if x.Init != nil {
		// if init; cond {...}: the init variables scope over the if only; translate as a block
		inner := &ast.IfStmt{If: x.If, Cond: x.Cond, Body: x.Body, Else: x.Else}
		return g.block([]ast.Stmt{x.Init, inner}, sc, func(kscope) string { return cont(sc) })
	}
	cond := g.expr(x.Cond)
	var elseStmts []ast.Stmt
	switch e := x.Else.(type) {
	case *ast.BlockStmt:
		elseStmts = e.List
	case *ast.IfStmt:
		elseStmts = []ast.Stmt{e}
	}
	if hasReturn(x) || (g.cur.opt && g.needsMonad(x)) {
		// a branch may leave the function (return, failed bounds check, loop out of fuel): duplicate the continuation
		k := func(kscope) string { return cont(sc) }
		return "if " + cond + " then (" + g.block(x.Body.List, sc, k) + ")\n  else (" + g.block(elseStmts, sc, k) + ")"
	}
	vs := g.assigned(x, sc)
	if len(vs) == 0 {
		return cont(sc)
	}
	k := func(kscope) string { return tuple(vs) }
	return "let " + pattern(vs) + " := (if " + cond + " then (" + g.block(x.Body.List, sc, k) + ")\n    else (" + g.block(elseStmts, sc, k) + ")) in\n  " + cont(sc)
}

// needsMonad: the statement contains something whose translation is option-valued (bounds check, make, copy,
// loop, call of an option-valued kernel)
func (g *kgen) needsMonad(n ast.Node) bool {
	found := false
	ast.Inspect(n, func(m ast.Node) bool {
		switch x := m.(type) {
		case *ast.IndexExpr, *ast.ForStmt, *ast.SliceExpr:
			found = true
		case *ast.CallExpr:
			if id, ok := x.Fun.(*ast.Ident); ok && (id.Name == "make" || id.Name == "copy") {
				found = true
			}
			if c := g.calleeOf(x); c != nil && c.opt {
				found = true
			}
		}
		return !found
	})
	return found
}

// switchToIf rewrites a switch without fallthrough into an if chain
func (g *kgen) switchToIf(x *ast.SwitchStmt) ast.Stmt {
	if x.Init != nil {
		g.fail(x.Pos(), "switch with init")
	}
	var def []ast.Stmt
	type arm struct {
		cond ast.Expr
		body []ast.Stmt
	}
	var arms []arm
	boolT := types.Typ[types.Bool]
	for _, c := range x.Body.List {
		cc := c.(*ast.CaseClause)
		for _, s := range cc.Body {
			if b, ok := s.(*ast.BranchStmt); ok {
				g.fail(b.Pos(), "branch statement in switch")
			}
		}
		if cc.List == nil {
			def = cc.Body
			continue
		}
		var cond ast.Expr
		for _, v := range cc.List {
			var one ast.Expr = v
			if x.Tag != nil {
				be := &ast.BinaryExpr{X: x.Tag, Op: token.EQL, Y: v}
				g.cur.pkg.Info.Types[be] = types.TypeAndValue{Type: boolT}
				one = be
			}
			if cond == nil {
				cond = one
			} else {
				be := &ast.BinaryExpr{X: cond, Op: token.LOR, Y: one}
				g.cur.pkg.Info.Types[be] = types.TypeAndValue{Type: boolT}
				cond = be
			}
		}
		arms = append(arms, arm{cond, cc.Body})
	}
	var cur ast.Stmt = &ast.BlockStmt{List: def}
	for i := len(arms) - 1; i >= 0; i-- {
		cur = &ast.IfStmt{Cond: arms[i].cond, Body: &ast.BlockStmt{List: arms[i].body}, Else: cur}
	}
	if len(arms) == 0 {
		return cur
	}
	return cur
}

func (g *kgen) forStmt(x *ast.ForStmt, sc kscope, cont func(kscope) string) string {
	if hasReturn(x.Body) {
		g.fail(x.Pos(), "return inside a loop")
		return "0"
	}
	bad := false
	ast.Inspect(x.Body, func(n ast.Node) bool {
		if _, ok := n.(*ast.BranchStmt); ok {
			bad = true
		}
		return true
	})
	if bad {
		g.fail(x.Pos(), "break/continue inside a loop")
		return "0"
	}
	if x.Init != nil {
		// the init variable scopes over the loop only
		inner := &ast.ForStmt{For: x.For, Cond: x.Cond, Post: x.Post, Body: x.Body}
		return g.block([]ast.Stmt{x.Init, inner}, sc, func(kscope) string { return cont(sc) })
	}
	if x.Cond == nil {
		g.fail(x.Pos(), "loop without condition")
		return "0"
	}
	if g.cur.spec.Fuel <= 0 && g.cur.spec.fuelExpr() == "" {
		g.fail(x.Pos(), "loop in a kernel configured without fuel")
		return "0"
	}
	body := append([]ast.Stmt{}, x.Body.List...)
	if x.Post != nil {
		body = append(body, x.Post)
	}
	loopNode := &ast.BlockStmt{List: body}
	vs := g.assigned(loopNode, sc)
	g.loopN++
	name := fmt.Sprintf("%s_loop%d", g.cur.coq, g.loopN)
	// parameters: every variable in scope (loop-invariant ones first, then the state)
	isState := map[string]bool{}
	for _, v := range vs {
		isState[v.name] = true
	}
	var params, args []string
	for _, v := range sc {
		if !isState[v.name] {
			params = append(params, fmt.Sprintf("(%s : %s)", v.name, v.ty.coq()))
			args = append(args, v.name)
		}
	}
	for _, v := range vs {
		params = append(params, fmt.Sprintf("(%s : %s)", v.name, v.ty.coq()))
	}
	var stArgs []string
	for _, v := range vs {
		stArgs = append(stArgs, v.name)
	}
	rec := "(" + name + " fuel' " + strings.Join(append(append([]string{}, args...), stArgs...), " ") + ")"
	bodyT := g.block(body, sc, func(kscope) string { return rec })
	var cg []string
	g.exprGuards(x.Cond, false, &cg)
	aux := fmt.Sprintf("Fixpoint %s (fuel : nat) %s : option %s :=\n  match fuel with\n  | O => None\n  | S fuel' =>\n  %s\n  end.\n\n",
		name, strings.Join(params, " "), tupleType(vs), guarded(cg, "if "+g.expr(x.Cond)+" then ("+bodyT+")\n  else Some "+tuple(vs)))
	g.aux = append(g.aux, aux)
	fuel := fmt.Sprint(g.cur.spec.Fuel) + "%nat"
	if fe := g.cur.spec.fuelExpr(); fe != "" {
		fuel = "(" + fe + ")"
	}
	call := "(" + name + " " + fuel + " " + strings.Join(append(append([]string{}, args...), stArgs...), " ") + ")"
	pat := tuple(vs)
	return "match " + call + " with None => None | Some " + pat + " =>\n  " + cont(sc) + " end"
}

// ---- driver ----

func (g *kgen) findDecl(p *Pkg, recv, name string) *ast.FuncDecl {
	for _, f := range p.Files {
		for _, d := range f.Decls {
			fd, ok := d.(*ast.FuncDecl)
			if !ok || fd.Name.Name != name || fd.Body == nil {
				continue
			}
			r := ""
			if fd.Recv != nil && len(fd.Recv.List) == 1 {
				t := fd.Recv.List[0].Type
				if s, ok := t.(*ast.StarExpr); ok {
					t = s.X
				}
				if id, ok := t.(*ast.Ident); ok {
					r = id.Name
				}
			}
			if r == recv {
				return fd
			}
		}
	}
	return nil
}

func (g *kgen) usesLoopOrOptCallee(k *kfunc, seen map[string]bool) bool {
	key := kkey(k.spec.Dir, k.spec.Recv, k.spec.Name)
	if seen[key] {
		return false
	}
	seen[key] = true
	res := false
	save := g.cur
	g.cur = k
	ast.Inspect(k.decl.Body, func(n ast.Node) bool {
		switch x := n.(type) {
		case *ast.ForStmt, *ast.RangeStmt:
			res = true
		case *ast.CallExpr:
			if c := g.calleeOf(x); c != nil && c != k {
				if g.usesLoopOrOptCallee(c, seen) {
					res = true
				}
			}
		}
		return !res
	})
	g.cur = save
	return res
}

func (g *kgen) translate(k *kfunc) {
	g.cur = k
	g.loopN = 0
	g.aux = nil
	fd := k.decl
	var sc kscope
	var params []string
	pre := ""
	if fd.Recv != nil {
		rn := fd.Recv.List[0].Names[0]
		rt := g.tyOf(g.typeOfExpr(rn), rn.Pos())
		k.recvNm = cid(rn.Name)
		params = append(params, fmt.Sprintf("(%s : %s)", k.recvNm+"_rcv", rt.coq()))
		for _, f := range g.expand(rn.Name, rt) {
			fname := strings.TrimPrefix(f.name, k.recvNm+"_")
			pre += "let " + f.name + " := " + rt.sname + "_" + fname + " " + k.recvNm + "_rcv in\n  "
			sc = append(sc, f)
		}
	}
	for _, fl := range fd.Type.Params.List {
		for _, n := range fl.Names {
			t := g.tyOf(g.typeOfExpr(n), n.Pos())
			if t.kind == "struct" {
				params = append(params, fmt.Sprintf("(%s : %s)", cid(n.Name)+"_arg", t.coq()))
				for _, f := range g.expand(n.Name, t) {
					fname := strings.TrimPrefix(f.name, cid(n.Name)+"_")
					pre += "let " + f.name + " := " + t.sname + "_" + fname + " " + cid(n.Name) + "_arg in\n  "
					sc = append(sc, f)
				}
				continue
			}
			if t.kind == "list" {
				if k.paramSlices == nil {
					k.paramSlices = map[string]bool{}
				}
				k.paramSlices[cid(n.Name)] = true
				k.paramOrder = append(k.paramOrder, cid(n.Name))
			}
			params = append(params, fmt.Sprintf("(%s : %s)", cid(n.Name), t.coq()))
			// parameters of sized integer types arrive already in range
			sc = append(sc, kvar{cid(n.Name), t})
		}
	}
	k.named = nil
	if fd.Type.Results != nil {
		for _, fl := range fd.Type.Results.List {
			for _, n := range fl.Names {
				t := g.tyOf(g.typeOfExpr(n), n.Pos())
				if t.kind == "struct" {
					g.fail(n.Pos(), "named struct result")
				}
				zero := "0"
				if t.kind == "bool" {
					zero = "false"
				}
				if t.kind == "list" {
					zero = "(@nil Z)"
				}
				pre += "let " + cid(n.Name) + " := " + zero + " in\n  "
				sc = append(sc, kvar{cid(n.Name), t})
				k.named = append(k.named, cid(n.Name))
			}
		}
	}
	// which parameter slices does the body write through?  (must be known before the first return is emitted)
	ast.Inspect(fd.Body, func(n ast.Node) bool {
		mark := func(e ast.Expr) {
			switch t := e.(type) {
			case *ast.IndexExpr:
				if id, ok := t.X.(*ast.Ident); ok && k.paramSlices[cid(id.Name)] {
					k.noteMutated(cid(id.Name))
				}
			case *ast.SliceExpr:
				if id, ok := t.X.(*ast.Ident); ok && k.paramSlices[cid(id.Name)] {
					k.noteMutated(cid(id.Name))
				}
			case *ast.Ident:
				if k.paramSlices[cid(t.Name)] {
					k.noteMutated(cid(t.Name))
				}
			}
		}
		switch a := n.(type) {
		case *ast.AssignStmt:
			for _, l := range a.Lhs {
				mark(l)
			}
		case *ast.IncDecStmt:
			mark(a.X)
		case *ast.CallExpr:
			if id, ok := a.Fun.(*ast.Ident); ok && id.Name == "copy" && len(a.Args) == 2 {
				mark(a.Args[0])
			}
		}
		return true
	})
	body := g.block(fd.Body.List, sc, func(kscope) string { return g.implicitReturn() })
	pos := k.pkg.Fset.Position(fd.Pos())
	hdr := fmt.Sprintf("(* %s:%d  func %s *)\n", strings.TrimPrefix(pos.Filename, repo+"/"), pos.Line, k.spec.Name)
	k.out = hdr + strings.Join(g.aux, "") + fmt.Sprintf("Definition %s %s :=\n  %s%s.\n\n", k.coq, strings.Join(params, " "), pre, body)
}

// runKernels translates one configured list into one generated file.
func runKernels(specs []kernelSpec, outFile string, requires string) error {
	err := runKernels1(specs, outFile, requires)
	if err != nil {
		// a kernel left the subset (or disappeared): a stale translation must not keep the tie theorems provable.
		// The file is replaced by one without the definitions, so everything that depends on it stops building
		// and the properties concerned report the broken obligation.
		msg := strings.NewReplacer("(*", "( *", "*)", "* )").Replace(err.Error())
		writeIfChanged(outFile, []byte(genHeader+"(* TRANSLATION FAILED: "+msg+" *)\nFrom V Require Import Common.Base.\nDefinition translation_failed : bool := true.\n"))
	}
	return err
}

func runKernels1(specs []kernelSpec, outFile string, requires string) error {
	g := &kgen{funcs: map[string]*kfunc{}, structs: map[string]*types.Struct{}}
	var keys []string
	for _, s := range specs {
		p, err := loadFactsPkg(s.Dir) // repo-internal imports resolved from source, independent of the working directory
		if err != nil {
			return err
		}
		fd := g.findDecl(p, s.Recv, s.Name)
		if fd == nil {
			return fmt.Errorf("kernel %s %s.%s not found", s.Dir, s.Recv, s.Name)
		}
		nm := pkgAlias(s.Dir) + "_"
		if s.Recv != "" {
			nm += s.Recv + "_"
		}
		k := &kfunc{spec: s, pkg: p, decl: fd, coq: nm + s.Name, calls: map[string]bool{}}
		if fd.Recv != nil {
			_, k.ptr = fd.Recv.List[0].Type.(*ast.StarExpr)
			if len(fd.Recv.List[0].Names) == 0 {
				return fmt.Errorf("kernel %s: unnamed receiver", s.Name)
			}
			if k.ptr {
				// a pointer receiver that is never assigned through is treated like a value receiver
				rn := fd.Recv.List[0].Names[0].Name
				mut := false
				ast.Inspect(fd.Body, func(n ast.Node) bool {
					chk := func(e ast.Expr) {
						if se, ok := e.(*ast.SelectorExpr); ok {
							if id, ok := se.X.(*ast.Ident); ok && id.Name == rn {
								mut = true
							}
						}
						if st, ok := e.(*ast.StarExpr); ok {
							if id, ok := st.X.(*ast.Ident); ok && id.Name == rn {
								mut = true
							}
						}
					}
					switch a := n.(type) {
					case *ast.AssignStmt:
						for _, l := range a.Lhs {
							chk(l)
						}
					case *ast.IncDecStmt:
						chk(a.X)
					case *ast.UnaryExpr:
						if a.Op == token.AND {
							mut = true // address taken: give up on purity
						}
					}
					return true
				})
				k.ptr = mut
			}
		}
		key := kkey(s.Dir, s.Recv, s.Name)
		g.funcs[key] = k
		keys = append(keys, key)
	}
	for _, key := range keys {
		k := g.funcs[key]
		k.opt = g.usesLoopOrOptCallee(k, map[string]bool{}) || usesSlices(k.decl)
	}
	for _, key := range keys {
		g.translate(g.funcs[key])
		if g.err != nil {
			return g.err
		}
	}
	// topological order by calls (stable: configured order)
	done := map[string]bool{}
	var order []string
	var visit func(string, int) error
	visit = func(key string, depth int) error {
		if done[key] {
			return nil
		}
		if depth > len(keys) {
			return fmt.Errorf("recursive kernels at %s", key)
		}
		var cs []string
		for c := range g.funcs[key].calls {
			cs = append(cs, c)
		}
		sort.Strings(cs)
		for _, c := range cs {
			if err := visit(c, depth+1); err != nil {
				return err
			}
		}
		done[key] = true
		order = append(order, key)
		return nil
	}
	for _, key := range keys {
		if err := visit(key, 0); err != nil {
			return err
		}
	}
	out := genHeader + "(* Gallina translation of function bodies of /repo (harness/cmd/gen/gen_kernels.go). *)\nFrom V Require Import Common.Base.\n" + requires + "\n"
	for _, sn := range g.sorder {
		st := g.structs[sn]
		var fs []string
		for _, fld := range kfields(st) {
			save := g.cur
			fs = append(fs, fmt.Sprintf("%s_%s : %s", sn, fld.Name(), g.tyOf(fld.Type(), token.NoPos).coq()))
			g.cur = save
		}
		out += fmt.Sprintf("Record %s : Type := mk_%s { %s }.\n\n", sn, sn, strings.Join(fs, "; "))
	}
	if g.err != nil {
		return g.err
	}
	for _, key := range order {
		out += g.funcs[key].out
	}
	writeIfChanged(outFile, []byte(out))
	return nil
}

// kernelSpecsMore: further kernels, configured in gen_kernels_more.go; they are translated together with
// kernelSpecs (so they may call them) into a second file, KernelsMore_gen.v.
var kernelSpecsMore []kernelSpec

func init() {
	register("kernels", func() error {
		err1 := runKernels(kernelSpecs, "Kernels_gen.v", "")
		if len(kernelSpecsMore) == 0 {
			return err1
		}
		// both files are always (re)written: a failure of the first list must not leave a stale second file
		err2 := runKernels(append(append([]kernelSpec{}, kernelSpecs...), kernelSpecsMore...), "KernelsMore_gen.v", "")
		if err1 != nil {
			return err1
		}
		return err2
	})
	// kernels over slices: index reads/writes with Go's bounds checks explicit (None = run-time panic), make,
	// len; loop fuel from the slice length.  go_make / go_upd are defined in coq/Tie/GoSem.v.
	register("kernels_slices", func() error {
		return runKernels(kernelSpecsSlices, "KernelsSlices_gen.v", "From V Require Import Tie.GoSem.")
	})
}

var kernelSpecsSlices = []kernelSpec{
	{"jpeg2000/colorspace", "", "RCTForward", 0},
	{"jpeg2000/colorspace", "", "RCTInverse", 0},
	{"jpeg2000/colorspace", "", "ApplyRCTToComponents", 0},
	{"jpeg2000/colorspace", "", "ApplyInverseRCTToComponents", 0},
	{"jpeg2000/wavelet", "", "Forward53_1DWithParity", 0},
	{"jpeg2000/wavelet", "", "Inverse53_1DWithParity", 0},
}
