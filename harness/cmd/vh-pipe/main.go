// development binary for the pipe area (composed reversible single-tile JPEG 2000 path; C04).
// Exported API only (no build tag). Build: go build -o /verif/.work/bin/vh-pipe ./cmd/vh-pipe
package main

import (
	"verif/harness/suites/pipe"
	"verif/harness/vhlib"
)

func main() {
	s := vhlib.Suites{}
	pipe.Register(s)
	vhlib.Main(s)
}
