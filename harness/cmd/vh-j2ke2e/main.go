// development binary for one area
package main

import (
	"verif/harness/suites/j2ke2e"
	"verif/harness/vhlib"
)

func main() {
	s := vhlib.Suites{}
	j2ke2e.Register(s)
	vhlib.Main(s)
}
