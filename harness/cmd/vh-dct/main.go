// vh-dct: development binary for the JPEG DCT area (C11, C15) only.
package main

import (
	"verif/harness/suites/dct"
	"verif/harness/vhlib"
)

func main() {
	s := vhlib.Suites{}
	dct.Register(s)
	vhlib.Main(s)
}
