// vh-t1safe: development binary of the t1safe area (same as cmd/vh with only this area registered).
package main

import (
	"verif/harness/suites/t1safe"
	"verif/harness/vhlib"
)

func main() {
	s := vhlib.Suites{}
	t1safe.Register(s)
	vhlib.Main(s)
}
