// development binary for the t2ht area (HTJ2K packet-header coder; property C06).
// Suite "t2ht" needs the hooks: build with -tags verif against a /repo that has
// jpeg2000/t2/verif_hooks.go plus the wrapper of /verif/.work/t2ht-hook.go.txt
//   go build -tags verif -o /verif/.work/bin/vhk-t2ht ./cmd/vh-t2ht
//   vhk-t2ht -prop C06 -model /verif/.work/ocaml-t2ht/model.exe
// Without the tag only suite "t2ht-api" (exported API) runs.
package main

import (
	"verif/harness/suites/t2ht"
	"verif/harness/vhlib"
)

func main() {
	s := vhlib.Suites{}
	t2ht.Register(s)
	vhlib.Main(s)
}
