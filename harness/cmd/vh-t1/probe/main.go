package main

import (
	"fmt"

	"github.com/cocosip/go-dicom-codecs/jpeg2000/t1"
)

func maxbp(d []int32) int {
	m := int32(0)
	for _, v := range d {
		if v < 0 {
			v = -v
		}
		if v > m {
			m = v
		}
	}
	b := -1
	for m > 0 {
		m >>= 1
		b++
	}
	return b
}

func main() {
	for style := 1; style <= 1; style++ {
		for v := int32(1); v < 200; v++ {
			for _, sgn := range []int32{1, -1} {
				d := []int32{v * sgn}
				mb := maxbp(d)
				np := 3*(mb+1) - 2
				enc := t1.NewT1Encoder(1, 1, style)
				passes, data, _ := enc.EncodeLayered(d, np, 0, nil, uint8(style))
				rate := make([]int, np)
				for i, p := range passes {
					rate[i] = p.Rate
				}
				dec := t1.NewT1Decoder(1, 1, style)
				var err error
				func() {
					defer func() {
						if r := recover(); r != nil {
							err = fmt.Errorf("panic %v", r)
						}
					}()
					err = dec.DecodeLayeredWithMode(data, rate, mb, 0, style&4 != 0, style&2 != 0)
				}()
				got := dec.GetData()
				if err != nil || got[0] != d[0] {
					fmt.Printf("style %d v=%d got=%d err=%v data=%x rates=%v\n", style, d[0], got[0], err, data, rate)
				}
			}
		}
	}
}
