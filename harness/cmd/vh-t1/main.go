// vh-t1: development binary of the t1 area (same as cmd/vh with only this area registered).
package main

import (
	t1s "verif/harness/suites/t1"
	"verif/harness/vhlib"
)

func main() {
	s := vhlib.Suites{}
	t1s.Register(s)
	vhlib.Main(s)
}
