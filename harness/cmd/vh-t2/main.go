//go:build verif

// development binary for the t2 area (tier-2 packet headers / packets; properties C04, C08).
// Build: go build -tags verif -o /verif/.work/bin/vhk-t2 ./cmd/vh-t2
package main

import (
	t2s "verif/harness/suites/t2"
	"verif/harness/vhlib"
)

func main() {
	s := vhlib.Suites{}
	t2s.Register(s)
	vhlib.Main(s)
}
