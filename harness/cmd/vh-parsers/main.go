// development binary for the parsers area (C08, C09)
package main

import (
	"verif/harness/suites/parsers"
	"verif/harness/vhlib"
)

func main() {
	parsers.MaybeChild() // child-process mode (also triggered from the package's init)
	s := vhlib.Suites{}
	parsers.Register(s)
	vhlib.Main(s)
}
