// development binary for the MQ coder area
package main

import (
	"verif/harness/suites/mq"
	"verif/harness/vhlib"
)

func main() {
	s := vhlib.Suites{}
	mq.Register(s)
	vhlib.Main(s)
}
