// development binary for the pipestream area (real encoder's codestreams through the strict
// walker FrmJ2k.j2k_wellformed and the parser model PrsJ2k; C16 / C04). Exported API only.
// Build: go build -o /verif/.work/bin/vh-pipestream ./cmd/vh-pipestream
package main

import (
	"verif/harness/suites/pipestream"
	"verif/harness/vhlib"
)

func main() {
	s := vhlib.Suites{}
	pipestream.Register(s)
	vhlib.Main(s)
}
