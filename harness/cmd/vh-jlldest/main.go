// development binary for the general-layout part of C13 (suites/jpegll/c13dest.go)
package main

import (
	"verif/harness/suites/jpegll"
	"verif/harness/vhlib"
)

func main() {
	s := vhlib.Suites{}
	jpegll.RegisterDest(s)
	vhlib.Main(s)
}
