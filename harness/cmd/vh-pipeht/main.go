// development binary for the pipeht area (composed reversible single-tile HTJ2K path; C06).
// Exported API only (no build tag). Build: go build -o /verif/.work/bin/vh-pipeht ./cmd/vh-pipeht
package main

import (
	"verif/harness/suites/pipeht"
	"verif/harness/vhlib"
)

func main() {
	s := vhlib.Suites{}
	pipeht.Register(s)
	vhlib.Main(s)
}
