// development binary for one area
// the Go implementation and the extracted Coq model on them (correspondence), evaluates
// the property itself on the implementation (oracle / failing-input search), and writes a
// JSON result that bin/check turns into a verdict and an evidence file.
package main

import (
	"verif/harness/suites/j2kblocks"
	"verif/harness/vhlib"
)

func main() {
	s := vhlib.Suites{}
	j2kblocks.Register(s)
	vhlib.Main(s)
}
