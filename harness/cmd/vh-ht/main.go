// vh-ht: development binary for the HTJ2K component suites (C06) and the 9/7 quantisation suites (C12).
package main

import (
	"verif/harness/suites/ht"
	"verif/harness/suites/q97"
	"verif/harness/vhlib"
)

func main() {
	s := vhlib.Suites{}
	ht.Register(s)
	q97.Register(s)
	vhlib.Main(s)
}
