// development binary for the framing area (properties C16, C17): same driver as cmd/vh, only this area.
package main

import (
	"verif/harness/suites/framing"
	"verif/harness/vhlib"
)

func main() {
	s := vhlib.Suites{}
	framing.Register(s)
	vhlib.Main(s)
}
