package main
import ("fmt";"encoding/hex"; ls "github.com/cocosip/go-dicom-codecs/jpegls/lossless")
func main(){ px:=make([]byte,17*9); for i:=range px{px[i]=byte(i*7)}; d,_:=ls.Encode(px,17,9,1,8); for k:=0;k<20;k++{ for n:=0;n<len(d);n++{ fmt.Printf("%d jpegls/lossless.Decode %s - 0\n", k*1000+n, hex.EncodeToString(d[:n]))}}}
