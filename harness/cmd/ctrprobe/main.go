package main

import (
	"bytes"
	"fmt"

	"github.com/cocosip/go-dicom-codecs/jpeg2000"
)

func img(n, s int) []byte {
	b := make([]byte, n)
	for i := range b {
		b[i] = byte(i*7 + s*13 + i/16)
	}
	return b
}

func main() {
	p := jpeg2000.DefaultEncodeParams(16, 16, 1, 8, false)
	p.ROIConfig = &jpeg2000.ROIConfig{DefaultShift: 4, ROIs: []jpeg2000.ROIRegion{{Rect: &jpeg2000.ROIParams{X0: 4, Y0: 4, Width: 6, Height: 6, Shift: 4}}}}
	data, err := jpeg2000.NewEncoder(p).Encode(img(256, 1))
	fmt.Println("roiconfig encode", len(data), err)
	fmt.Println("roiconfig fresh decode:", jpeg2000.NewDecoder().Decode(append([]byte(nil), data...)))

	// encoder with parameters changed between calls through the retained pointer
	q := jpeg2000.DefaultEncodeParams(16, 16, 1, 8, false)
	e := jpeg2000.NewEncoder(q)
	a1, _ := e.Encode(img(256, 2))
	q.Lossless = false
	q.Quality = 60
	a2, err2 := e.Encode(img(256, 2))
	q2 := jpeg2000.DefaultEncodeParams(16, 16, 1, 8, false)
	q2.Lossless = false
	q2.Quality = 60
	f2, _ := jpeg2000.NewEncoder(q2).Encode(img(256, 2))
	fmt.Println("mutated params: reused == fresh:", bytes.Equal(a2, f2), err2, len(a1), len(a2), len(f2))
	d := jpeg2000.NewDecoder()
	fmt.Println("decode reused-encoder output:", d.Decode(append([]byte(nil), a2...)))
	d2 := jpeg2000.NewDecoder()
	_ = d2.Decode(append([]byte(nil), f2...))
	fmt.Println("pixels equal:", bytes.Equal(d.GetPixelData(), d2.GetPixelData()))
}
