// vh-jpegent: development binary for the JPEG entropy-layer area (C11, C08 correspondence) only.
package main

import (
	"verif/harness/suites/jpegent"
	"verif/harness/vhlib"
)

func main() {
	s := vhlib.Suites{}
	jpegent.Register(s)
	vhlib.Main(s)
}
