// development binary for the dwt area (5/3 reversible wavelet, property C20)
package main

import (
	"verif/harness/suites/dwt"
	"verif/harness/vhlib"
)

func main() {
	s := vhlib.Suites{}
	dwt.Register(s)
	vhlib.Main(s)
}
