// development binary for the jpegls area (C03, C07, C14)
package main

import (
	"verif/harness/suites/jpegls"
	"verif/harness/vhlib"
)

func main() {
	s := vhlib.Suites{}
	jpegls.Register(s)
	vhlib.Main(s)
}
