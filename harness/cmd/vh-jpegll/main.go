// development binary for area jpegll (C02, C13): see cmd/vh/main.go
package main

import (
	"verif/harness/suites/jpegll"
	"verif/harness/vhlib"
)

func main() {
	s := vhlib.Suites{}
	jpegll.Register(s)
	vhlib.Main(s)
}
