// development binary for the contract area (C10, C18).
// `vh-contract build-vrace` only builds the race-detector stress program (for bin/setup).
package main

import (
	"fmt"
	"os"

	"verif/harness/suites/contract"
	"verif/harness/vhlib"
)

func main() {
	if len(os.Args) > 1 && os.Args[1] == "build-vrace" {
		bin, err := contract.BuildVrace()
		if err != nil {
			fmt.Fprintln(os.Stderr, err)
			os.Exit(1)
		}
		fmt.Println(bin)
		return
	}
	s := vhlib.Suites{}
	contract.Register(s)
	vhlib.Main(s)
}
