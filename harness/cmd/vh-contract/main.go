// development binary for the contract area (C10, C18)
package main

import (
	"verif/harness/suites/contract"
	"verif/harness/vhlib"
)

func main() {
	s := vhlib.Suites{}
	contract.Register(s)
	vhlib.Main(s)
}
