// development binary for the RLE area (property C01): same driver as cmd/vh, only this area.
package main

import (
	"verif/harness/suites/rle"
	"verif/harness/vhlib"
)

func main() {
	s := vhlib.Suites{}
	rle.Register(s)
	vhlib.Main(s)
}
