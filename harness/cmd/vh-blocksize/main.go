// vh-blocksize: experiment for property C04 (hyp_block_sizes): how large can the T1+MQ output of one
// 64x64 code-block get?  Calls the exported T1 encoder exactly as Encoder.encodeCodeBlock does
// (coefficients << 6, fb = 6, style 0, 3*planes-2 passes) on random and hill-climbed blocks.
package main

import (
	"flag"
	"fmt"
	"math/rand"

	"github.com/cocosip/go-dicom-codecs/jpeg2000/t1"
)

func enc(data []int32, planes, orient int) int {
	e := t1.NewT1Encoder(64, 64, 0)
	e.SetOrientation(orient)
	e.SetNMSEDecFractionalBits(6)
	_, out, err := e.EncodeLayered(data, 3*planes-2, 0, nil, 0)
	if err != nil {
		return -1
	}
	return len(out)
}

func main() {
	iters := flag.Int("iters", 20000, "hill-climbing steps")
	seed := flag.Int64("seed", 1, "seed")
	flag.Parse()
	rng := rand.New(rand.NewSource(*seed))
	for _, planes := range []int{8, 16, 20, 25} {
		for _, orient := range []int{0, 3} {
			mag := make([]int32, 4096)
			data := make([]int32, 4096)
			set := func(i int) {
				v := mag[i] &^ (1 << 30)
				if mag[i]&(1<<30) != 0 {
					data[i] = -(v << 6)
				} else {
					data[i] = v << 6
				}
			}
			for i := range mag {
				mag[i] = int32(rng.Intn(1<<planes)) | int32(1<<(planes-1)) | int32(rng.Intn(2))<<30
				set(i)
			}
			base := enc(data, planes, orient)
			best := base
			for it := 0; it < *iters; it++ {
				// flip a few bits at once
				n := 1 + rng.Intn(4)
				idx := make([]int, n)
				old := make([]int32, n)
				for j := 0; j < n; j++ {
					idx[j] = rng.Intn(4096)
					old[j] = mag[idx[j]]
				}
				for j := 0; j < n; j++ {
					b := rng.Intn(planes + 1)
					if b == planes {
						mag[idx[j]] ^= 1 << 30
					} else {
						mag[idx[j]] ^= 1 << b
					}
					set(idx[j])
				}
				s := enc(data, planes, orient)
				if s >= best {
					best = s
				} else {
					for j := n - 1; j >= 0; j-- {
						mag[idx[j]] = old[j]
						set(idx[j])
					}
				}
			}
			fmt.Printf("planes=%d orient=%d raw=%d bytes random=%d hillclimbed=%d ratio=%.3f (limit 65535)\n",
				planes, orient, 4096*(planes+1)/8, base, best, float64(best)/float64(4096*(planes+1)/8))
		}
	}
}
