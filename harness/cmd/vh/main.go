// vh: the verification harness. For one property it generates cases from the seed, runs
// the Go implementation and the extracted Coq model on them (correspondence), evaluates
// the property itself on the implementation (oracle / failing-input search), and writes a
// JSON result that bin/check turns into a verdict and an evidence file.
package main

import (
	"verif/harness/suites/contract"
	"verif/harness/suites/dct"
	"verif/harness/suites/dwt"
	"verif/harness/suites/ht"
	"verif/harness/suites/j2kblocks"
	"verif/harness/suites/j2ke2e"
	"verif/harness/suites/q97"
	t1s "verif/harness/suites/t1"
	"verif/harness/vhlib"
)

func main() {
	s := vhlib.Suites{}
	j2kblocks.Register(s)
	dwt.Register(s)
	dct.Register(s)
	contract.Register(s)
	ht.Register(s)
	q97.Register(s)
	t1s.Register(s)
	j2ke2e.Register(s)
	vhlib.Main(s)
}
