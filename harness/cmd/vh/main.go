// vh: the verification harness. For one property it generates cases from the seed, runs
// the Go implementation and the extracted Coq model on them (correspondence), evaluates
// the property itself on the implementation (oracle / failing-input search), and writes a
// JSON result that bin/check turns into a verdict and an evidence file.
package main

import (
	"verif/harness/suites/contract"
	"verif/harness/suites/dct"
	"verif/harness/suites/dwt"
	"verif/harness/suites/framing"
	"verif/harness/suites/ht"
	"verif/harness/suites/htsafe"
	"verif/harness/suites/j2kblocks"
	"verif/harness/suites/j2ke2e"
	"verif/harness/suites/jpegent"
	"verif/harness/suites/jpegll"
	"verif/harness/suites/jpegls"
	"verif/harness/suites/mq"
	"verif/harness/suites/parsers"
	"verif/harness/suites/pipe"
	"verif/harness/suites/pipeht"
	"verif/harness/suites/pipestream"
	"verif/harness/suites/q97"
	"verif/harness/suites/rle"
	t1s "verif/harness/suites/t1"
	"verif/harness/suites/t1safe"
	"verif/harness/suites/t2ht"
	"verif/harness/vhlib"
)

func main() {
	parsers.MaybeChild() // re-executed as a decode worker by the C08/C09 suites
	s := vhlib.Suites{}
	rle.Register(s)        // C01
	jpegll.Register(s)     // C02 C13
	jpegls.Register(s)     // C03 C07 C14
	j2ke2e.Register(s)     // C04 C05 C06 C12 C19 (end-to-end oracles)
	parsers.Register(s)    // C08 C09
	contract.Register(s)   // C10 C18
	dct.Register(s)        // C11 C15
	q97.Register(s)        // C12
	ht.Register(s)         // C06
	framing.Register(s)    // C16 C17
	j2kblocks.Register(s)  // C20 (RCT)
	dwt.Register(s)        // C20 (5/3 DWT)
	mq.Register(s)         // C20 C16 C08 (MQ coder)
	t1s.Register(s)        // C20 (EBCOT T1)
	pipe.Register(s)       // C04 (composed reversible pipeline)
	pipestream.Register(s) // C16 C04 (walker + parser model on the composed codestream)
	pipeht.Register(s)     // C06 (HT block coder composed into the pipeline)
	jpegent.Register(s)    // C11 C08 C09 C15 (baseline / extended entropy layer)
	t1safe.Register(s)     // C08 C09 (T1 block decoder on arbitrary input)
	jpegll.RegisterDest(s) // C13 (every T.81 stream layout: table destinations, DHT/APPn/COM placement)
	t2ht.Register(s)       // C06 (HTJ2K packet-header coder; exported-API part, hook part in cmd/vhk)
	htsafe.Register(s)     // C08 C09 (HT cleanup block decoder on arbitrary input)
	vhlib.Main(s)
}
