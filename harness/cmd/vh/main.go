// vh: the verification harness. For one property it generates cases from the seed, runs
// the Go implementation and the extracted Coq model on them (correspondence), evaluates
// the property itself on the implementation (oracle / failing-input search), and writes a
// JSON result that bin/check turns into a verdict and an evidence file.
package main

import (
	"flag"
	"fmt"
	"os"
	"runtime"
	"sort"
	"strings"

	. "verif/harness/vhlib"
)

type Ctx struct {
	R      *Result
	Rng    *Rand
	M      *Pool
	Tier   string
	Thor   bool
	Replay string
	Work   int // worker count
}

// N picks a case count by tier.
func (c *Ctx) N(quick, thorough int) int {
	if c.Thor {
		return thorough
	}
	return quick
}

var suites = map[string]func(*Ctx){}

func main() {
	prop := flag.String("prop", "", "property id (C01..C20)")
	seed := flag.Uint64("seed", 1, "PRNG seed")
	tier := flag.String("tier", "quick", "quick|thorough")
	model := flag.String("model", "/verif/.work/ocaml/model.exe", "extracted model executable")
	out := flag.String("out", "", "result json path")
	replay := flag.String("replay", "", "replay file (re-run the recorded failing inputs)")
	flag.Parse()
	f, ok := suites[strings.ToUpper(*prop)]
	if !ok {
		var ks []string
		for k := range suites {
			ks = append(ks, k)
		}
		sort.Strings(ks)
		fmt.Fprintln(os.Stderr, "unknown property; have", ks)
		os.Exit(2)
	}
	w := runtime.NumCPU()
	pool, err := StartPool(*model, w)
	if err != nil {
		fmt.Fprintln(os.Stderr, "cannot start model:", err)
		os.Exit(2)
	}
	defer pool.Close()
	c := &Ctx{R: NewResult(strings.ToUpper(*prop), *tier, *seed), Rng: NewRand(*seed), M: pool,
		Tier: *tier, Thor: *tier == "thorough", Replay: *replay, Work: w}
	if pool.Call("ping") != "pong" {
		fmt.Fprintln(os.Stderr, "model does not answer")
		os.Exit(2)
	}
	f(c)
	if *out != "" {
		if err := c.R.Write(*out); err != nil {
			fmt.Fprintln(os.Stderr, err)
			os.Exit(2)
		}
	}
	fmt.Printf("%s: evaluations=%d nontrivial=%d failures=%d\n", c.R.Property, c.R.Evaluations, c.R.Nontrivial, c.R.NFailures())
}
