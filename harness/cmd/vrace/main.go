// vrace: the C18 stress program. It is built with `go build -race` by the contract suite and
// run as a child process. All 14 registry codecs are called from many goroutines at once —
// on the SAME codec instances (the global registry's) — with nil, per-call, or one shared
// GetDefaultParameters() object; every result is compared with the result of the same call
// made alone beforehand. Output protocol (stdout):
//
//	ROUND procs=<p> mode=<nil|percall|shared> calls=<n>
//	MISMATCH <ts> <encode|decode> mode=<m> procs=<p> : <what>
//	DONE calls=<n> mismatches=<k>
//
// Data races are reported by the race detector on stderr ("WARNING: DATA RACE" blocks) and make
// the process exit with status 66; mismatches make it exit with status 3.
package main

import (
	"flag"
	"fmt"
	"os"
	"runtime"
	"strconv"
	"strings"
	"sync"
	"sync/atomic"
	"time"

	"github.com/cocosip/go-dicom/pkg/imaging/codec"
	ct "verif/harness/suites/contract"
	"verif/harness/vhlib"
)

type item struct {
	ts       ct.TS
	c        codec.Codec
	g        ct.Geo
	frames   [][]byte
	wantEnc  map[string][][]byte // per mode
	wantDec  map[string][][]byte
	encError map[string]bool
}

func main() {
	seconds := flag.Float64("seconds", 20, "stress budget in seconds (all rounds together)")
	seed := flag.Uint64("seed", 1, "seed")
	procsFlag := flag.String("procs", "1,2,4,16", "GOMAXPROCS values")
	nG := flag.Int("goroutines", 64, "concurrent calls per round")
	only := flag.String("only", "", "restrict to one transfer syntax short name (e.g. .201)")
	size := flag.Int("size", 8, "image edge length (small: the race detector slows the codecs down ~10x)")
	nframes := flag.Int("frames", 1, "frames per call")
	flag.Parse()

	rng := vhlib.NewRand(*seed)
	var items []*item
	for _, ts := range ct.AllTS() {
		if *only != "" && ts.Short != *only {
			continue
		}
		c, err := ct.Registry(ts)
		if err != nil {
			fmt.Println("MISMATCH", ts.Short, "registry", err)
			os.Exit(3)
		}
		// two geometries per syntax: 8-bit colour and (where supported) 16-bit grey
		geos := []ct.Geo{{W: *size, H: *size + 1, SPP: 3, BitsAllocated: 8, BitsStored: 8}, {W: *size + 1, H: *size, SPP: 1, BitsAllocated: 16, BitsStored: 12}}
		for _, g := range geos {
			if !g.Supported(ts) {
				continue
			}
			var frames [][]byte
			for k := 0; k < *nframes; k++ {
				frames = append(frames, ct.GenFrame(rng, g, (k+1)%2))
			}
			it := &item{ts: ts, c: c, g: g, frames: frames, wantEnc: map[string][][]byte{}, wantDec: map[string][][]byte{}, encError: map[string]bool{}}
			// the sequential reference, per parameter mode (a fresh default object each time)
			for _, mode := range []string{"nil", "percall", "shared"} {
				var p codec.Parameters
				if mode != "nil" {
					p = c.GetDefaultParameters()
				}
				enc, err := ct.Encode(c, g, ct.CloneFrames(frames), p)
				if err != nil {
					it.encError[mode] = true
					continue
				}
				it.wantEnc[mode] = enc
				var pd codec.Parameters
				if mode != "nil" {
					pd = c.GetDefaultParameters()
				}
				dec, err := ct.Decode(c, g, ct.CloneFrames(enc), pd)
				if err != nil {
					fmt.Println("MISMATCH", ts.Short, "decode", "sequential reference failed:", err)
					os.Exit(3)
				}
				it.wantDec[mode] = dec
			}
			items = append(items, it)
		}
	}
	if len(items) == 0 {
		fmt.Println("MISMATCH - no workload")
		os.Exit(3)
	}
	// table-altering streams and the ordinary streams of the same decoder (suites/contract/special.go):
	// decode-only jobs. All ordinary references first, then the altering ones, so that a decoder
	// that lets an altering stream change shared state is caught by the ordinary jobs.
	type sjob struct {
		ts    ct.TS
		c     codec.Codec
		g     ct.Geo
		name  string
		data  []byte
		class string
		want  [][]byte
	}
	var specials []*sjob
	if *only == "" {
		groups := ct.SpecialGroups(rng)
		for pass := 0; pass < 2; pass++ {
			for _, grp := range groups {
				c, err := ct.Registry(grp.TS)
				if err != nil {
					continue
				}
				list := grp.Ordinary
				if pass == 1 {
					list = grp.Altering
				}
				for _, sp := range list {
					cl, out := ct.DecodeSolo(c, grp.G, sp.Data)
					kind := "ordinary:"
					if pass == 1 {
						kind = "altering:"
					}
					specials = append(specials, &sjob{grp.TS, c, grp.G, kind + sp.Name, sp.Data, cl, out})
				}
			}
		}
	}

	var procs []int
	for _, s := range strings.Split(*procsFlag, ",") {
		if v, err := strconv.Atoi(strings.TrimSpace(s)); err == nil && v > 0 {
			procs = append(procs, v)
		}
	}
	modes := []string{"nil", "percall", "shared"}
	rounds := len(procs) * len(modes)
	perRound := time.Duration(*seconds * float64(time.Second) / float64(rounds))
	var total, mism int64
	var outMu sync.Mutex
	report := func(format string, a ...interface{}) {
		outMu.Lock()
		fmt.Printf(format+"\n", a...)
		outMu.Unlock()
		atomic.AddInt64(&mism, 1)
	}
	for _, p := range procs {
		runtime.GOMAXPROCS(p)
		for _, mode := range modes {
			deadline := time.Now().Add(perRound)
			var calls int64
			pass := 0
			for time.Now().Before(deadline) || pass == 0 {
				pass++
				// one shared parameters object per codec instance for this pass
				shared := map[codec.Codec]codec.Parameters{}
				if mode == "shared" {
					for _, it := range items {
						if _, ok := shared[it.c]; !ok {
							shared[it.c] = it.c.GetDefaultParameters()
						}
					}
				}
				offs := make([]int, *nG)
				spin := make([]int, *nG)
				for i := range offs {
					offs[i] = rng.Intn(len(items) + len(specials))
					spin[i] = rng.Intn(2000)
				}
				var wg sync.WaitGroup
				start := make(chan struct{})
				for gi := 0; gi < *nG; gi++ {
					wg.Add(1)
					go func(gi int) {
						defer wg.Done()
						<-start
						// randomised start offset: spin a little, yield a few times
						x := 0
						for k := 0; k < spin[gi]; k++ {
							x += k
							if k%512 == 0 {
								runtime.Gosched()
							}
						}
						_ = x
						if k := (offs[gi] + gi) % (len(items) + len(specials)/2 + 1); k >= len(items) && len(specials) > 0 {
							sj := specials[(offs[gi]*7+gi*13+spin[gi])%len(specials)]
							atomic.AddInt64(&calls, 1)
							cl, out := ct.DecodeSolo(sj.c, sj.g, sj.data)
							if cl != sj.class || !ct.EqualFrames(out, sj.want) {
								report("MISMATCH %s decode-special mode=%s procs=%d : stream %q decodes differently (%s) than alone (%s) (%s)", sj.ts.Short, mode, p, sj.name, cl, sj.class, sj.g)
							}
							return
						}
						it := items[(offs[gi]+gi)%len(items)]
						if it.encError[mode] {
							return
						}
						var pm codec.Parameters
						switch mode {
						case "percall":
							pm = it.c.GetDefaultParameters()
						case "shared":
							pm = shared[it.c]
						}
						atomic.AddInt64(&calls, 1)
						if gi%2 == 0 {
							// every call has its own pixel data
							got, err := ct.Encode(it.c, it.g, ct.CloneFrames(it.frames), pm)
							if err != nil {
								report("MISMATCH %s encode mode=%s procs=%d : error %v", it.ts.Short, mode, p, err)
							} else if !ct.EqualFrames(got, it.wantEnc[mode]) {
								report("MISMATCH %s encode mode=%s procs=%d : output differs from the sequential call (%s)", it.ts.Short, mode, p, it.g)
							}
						} else {
							got, err := ct.Decode(it.c, it.g, ct.CloneFrames(it.wantEnc[mode]), pm)
							if err != nil {
								report("MISMATCH %s decode mode=%s procs=%d : error %v", it.ts.Short, mode, p, err)
							} else if !ct.EqualFrames(got, it.wantDec[mode]) {
								report("MISMATCH %s decode mode=%s procs=%d : output differs from the sequential call (%s)", it.ts.Short, mode, p, it.g)
							}
						}
					}(gi)
				}
				close(start)
				wg.Wait()
			}
			outMu.Lock()
			fmt.Printf("ROUND procs=%d mode=%s calls=%d passes=%d\n", p, mode, calls, pass)
			outMu.Unlock()
			total += calls
		}
	}
	fmt.Printf("DONE calls=%d mismatches=%d\n", total, mism)
	if mism > 0 {
		os.Exit(3)
	}
}
