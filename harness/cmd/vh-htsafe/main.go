// vh-htsafe: development binary of the htsafe area (same as cmd/vh with only this area registered).
package main

import (
	"verif/harness/suites/htsafe"
	"verif/harness/vhlib"
)

func main() {
	s := vhlib.Suites{}
	htsafe.Register(s)
	vhlib.Main(s)
}
