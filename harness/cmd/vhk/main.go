//go:build verif

// vhk: the hook-using verification harness binary. Same shape as cmd/vh, but it registers the
// suites that call the `Verif*` wrappers compiled into /repo only with `-tags verif`
// (add-only files verif_hooks.go). Build: go build -tags verif -o /verif/.work/bin/vhk ./cmd/vhk
package main

import (
	"verif/harness/suites/j2kgeo"
	t2s "verif/harness/suites/t2"
	"verif/harness/suites/t2ht"
	"verif/harness/vhlib"
)

func main() {
	s := vhlib.Suites{}
	j2kgeo.Register(s)
	t2s.Register(s)
	t2ht.Register(s)
	vhlib.Main(s)
}
