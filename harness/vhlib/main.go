package vhlib

import (
	"encoding/json"
	"flag"
	"fmt"
	"os"
	"runtime"
	"sort"
	"strings"
)

// Ctx is what a suite gets: result accumulator, PRNG, model pool, tier.
type Ctx struct {
	R      *Result
	Rng    *Rand
	M      *Pool
	Tier   string
	Thor   bool
	Replay string
	Work   int // worker count
}

// N picks a case count by tier.
func (c *Ctx) N(quick, thorough int) int {
	if c.Thor {
		return thorough
	}
	return quick
}

// HasModel reports whether the extracted model is available (it is not when a model file
// no longer compiles; correspondence comparisons are then skipped and reported by bin/check).
func (c *Ctx) HasModel() bool { return c.M != nil && len(c.M.ms) > 0 }

// CorrEq records one model-vs-implementation comparison.
func (c *Ctx) CorrEq(suite, sig string, model, impl string, input interface{}) bool {
	if !c.HasModel() {
		c.R.mu.Lock()
		c.R.Dist["corr_skipped_no_model"]++
		c.R.mu.Unlock()
		return true
	}
	c.R.Corr(suite)
	if model != impl {
		c.R.Fail("corr", suite, sig, "model output differs from implementation",
			map[string]interface{}{"input": input, "impl": clip(impl), "model": clip(model)})
		return false
	}
	return true
}

func clip(s string) string {
	if len(s) > 2000 {
		return s[:2000] + "...(" + fmt.Sprint(len(s)) + " chars)"
	}
	return s
}

// Suites maps a property id to the functions that contribute cases to its check.
type Suites map[string][]func(*Ctx)

func (s Suites) Add(prop string, f func(*Ctx)) { s[prop] = append(s[prop], f) }

// Main is the entry point shared by cmd/vh and the per-area development binaries.
func Main(suites Suites) {
	prop := flag.String("prop", "", "property id (C01..C20)")
	seed := flag.Uint64("seed", 1, "PRNG seed")
	tier := flag.String("tier", "quick", "quick|thorough")
	model := flag.String("model", "/verif/.work/ocaml/model.exe", "extracted model executable, or 'none'")
	out := flag.String("out", "", "result json path")
	replay := flag.String("replay", "", "replay file (re-run the recorded failing inputs)")
	flag.Parse()
	fs, ok := suites[strings.ToUpper(*prop)]
	if !ok {
		var ks []string
		for k := range suites {
			ks = append(ks, k)
		}
		sort.Strings(ks)
		fmt.Fprintln(os.Stderr, "unknown property; have", ks)
		os.Exit(2)
	}
	w := runtime.NumCPU()
	pool := &Pool{}
	if *model != "none" {
		var err error
		pool, err = StartPool(*model, w)
		if err != nil {
			fmt.Fprintln(os.Stderr, "cannot start model:", err)
			os.Exit(2)
		}
		defer pool.Close()
		if pool.Call("ping") != "pong" {
			fmt.Fprintln(os.Stderr, "model does not answer")
			os.Exit(2)
		}
	}
	c := &Ctx{R: NewResult(strings.ToUpper(*prop), *tier, *seed), Rng: NewRand(*seed), M: pool,
		Tier: *tier, Thor: *tier == "thorough", Replay: *replay, Work: w}
	var rules []string
	for _, f := range fs {
		c.R.Rule = ""
		f(c)
		if c.R.Rule != "" {
			rules = append(rules, c.R.Rule)
		}
	}
	c.R.Rule = strings.Join(rules, " || ")
	if *out != "" {
		if err := c.R.Write(*out); err != nil {
			fmt.Fprintln(os.Stderr, err)
			os.Exit(2)
		}
	}
	fmt.Printf("%s: evaluations=%d nontrivial=%d failures=%d\n", c.R.Property, c.R.Evaluations, c.R.Nontrivial, c.R.NFailures())
	for _, f := range c.R.Failures {
		fmt.Printf("  FAIL %s %s [%s] %s\n", f.Kind, f.Suite, f.Sig, f.What)
	}
}

// ReplayInputs returns the recorded inputs of the failures of one suite from the replay
// file (written by bin/check), or nil when not replaying.
func (c *Ctx) ReplayInputs(suite string) []json.RawMessage {
	if c.Replay == "" {
		return nil
	}
	b, err := os.ReadFile(c.Replay)
	if err != nil {
		c.R.Note("cannot read replay file: %v", err)
		return []json.RawMessage{}
	}
	var doc struct {
		Failures []struct {
			Suite string          `json:"suite"`
			Input json.RawMessage `json:"input"`
		} `json:"failures"`
		Corr []struct {
			Suite string          `json:"suite"`
			Input json.RawMessage `json:"input"`
		} `json:"correspondence_mismatches"`
	}
	if err := json.Unmarshal(b, &doc); err != nil {
		c.R.Note("cannot parse replay file: %v", err)
		return []json.RawMessage{}
	}
	out := []json.RawMessage{}
	for _, f := range doc.Failures {
		if f.Suite == suite {
			out = append(out, f.Input)
		}
	}
	for _, f := range doc.Corr {
		if f.Suite == suite {
			out = append(out, f.Input)
		}
	}
	return out
}

// CorpusInputs returns the minimised-failure corpus entries of one suite for this property
// (/verif/corpus/<prop>.json: {"<suite>": [input, ...]}); they run before the generated cases.
func (c *Ctx) CorpusInputs(suite string) []json.RawMessage {
	b, err := os.ReadFile("/verif/corpus/" + c.R.Property + ".json")
	if err != nil {
		return nil
	}
	var doc map[string][]json.RawMessage
	if json.Unmarshal(b, &doc) != nil {
		c.R.Note("corpus file for %s is not valid JSON", c.R.Property)
		return nil
	}
	return doc[suite]
}
