// Package vhlib: shared plumbing for the verification harness — deterministic PRNG,
// client for the extracted Coq model (model.exe line protocol), result accumulation.
package vhlib

import (
	"bufio"
	"encoding/hex"
	"encoding/json"
	"fmt"
	"io"
	"os"
	"os/exec"
	"sort"
	"strconv"
	"strings"
	"sync"
)

// ---------- PRNG (splitmix64): every random choice derives from one seed ----------

type Rand struct{ s uint64 }

func NewRand(seed uint64) *Rand { return &Rand{s: seed*0x9E3779B97F4A7C15 + 0x1234567} }
func (r *Rand) U64() uint64 {
	r.s += 0x9E3779B97F4A7C15
	z := r.s
	z = (z ^ (z >> 30)) * 0xBF58476D1CE4E5B9
	z = (z ^ (z >> 27)) * 0x94D049BB133111EB
	return z ^ (z >> 31)
}
func (r *Rand) Intn(n int) int {
	if n <= 1 {
		return 0
	}
	return int(r.U64() % uint64(n))
}
func (r *Rand) Range(lo, hi int) int { return lo + r.Intn(hi-lo+1) } // inclusive
func (r *Rand) Bool() bool           { return r.U64()&1 == 1 }
func (r *Rand) Pick(xs ...int) int   { return xs[r.Intn(len(xs))] }
func (r *Rand) Fork() *Rand          { return NewRand(r.U64()) }

// ---------- model client ----------

type Model struct {
	mu  sync.Mutex
	cmd *exec.Cmd
	in  io.WriteCloser
	out *bufio.Reader
	path string
}

func StartModel(path string) (*Model, error) {
	m := &Model{path: path}
	if err := m.start(); err != nil {
		return nil, err
	}
	return m, nil
}

func (m *Model) start() error {
	// unlimited stack for non-tail-recursive extracted list functions
	cmd := exec.Command("/bin/bash", "-c", "ulimit -s unlimited 2>/dev/null; exec "+m.path)
	in, err := cmd.StdinPipe()
	if err != nil {
		return err
	}
	out, err := cmd.StdoutPipe()
	if err != nil {
		return err
	}
	cmd.Stderr = os.Stderr
	if err := cmd.Start(); err != nil {
		return err
	}
	m.cmd, m.in, m.out = cmd, in, bufio.NewReaderSize(out, 1<<20)
	return nil
}

// Call sends one request line and returns the reply line.
func (m *Model) Call(op string, args ...string) string {
	m.mu.Lock()
	defer m.mu.Unlock()
	line := op
	if len(args) > 0 {
		line += " " + strings.Join(args, " ")
	}
	if _, err := io.WriteString(m.in, line+"\n"); err != nil {
		m.restart()
		return "!io " + err.Error()
	}
	rep, err := m.out.ReadString('\n')
	if err != nil {
		m.restart()
		return "!io " + err.Error()
	}
	return strings.TrimRight(rep, "\n")
}

func (m *Model) restart() {
	if m.cmd != nil && m.cmd.Process != nil {
		_ = m.cmd.Process.Kill()
		_ = m.cmd.Wait()
	}
	_ = m.start()
}

func (m *Model) Close() {
	if m.in != nil {
		_ = m.in.Close()
	}
	if m.cmd != nil {
		_ = m.cmd.Wait()
	}
}

// Pool of model processes for parallel case evaluation.
type Pool struct {
	ms []*Model
	ch chan *Model
}

func StartPool(path string, n int) (*Pool, error) {
	p := &Pool{ch: make(chan *Model, n)}
	for i := 0; i < n; i++ {
		m, err := StartModel(path)
		if err != nil {
			return nil, err
		}
		p.ms = append(p.ms, m)
		p.ch <- m
	}
	return p, nil
}
func (p *Pool) Call(op string, args ...string) string {
	if len(p.ms) == 0 {
		return "!nomodel"
	}
	m := <-p.ch
	defer func() { p.ch <- m }()
	rep := m.Call(op, args...)
	xlog(op, args, rep)
	return rep
}

// Extraction cross-check: when VERIF_XLOG names a file, a bounded sample of the requests of a
// few operations and the extracted model's replies is appended to it; bin/xcheck re-evaluates
// them inside Coq (vm_compute on the Gallina definitions) and compares.
var (
	xlogMu    sync.Mutex
	xlogFile  *os.File
	xlogCount = map[string]int{}
	xlogOps   = map[string]bool{"rct_fwd": true, "rle_encode": true, "dwt_fwd1d": true, "dwt_inv1d": true, "mq_encode": true,
		"rle_decode": true, "jls_encode": true, "jlsn_encode": true, "jll_encode": true, "sv1_encode": true,
		"dct_fdct": true, "dct_fdct12": true, "dct_idct": true, "dct_quant8": true, "dct_quant12": true, "hts_decode": true}
)

// xlogCap is the per-operation sample size (VERIF_XLOG_CAP, default 60).
func xlogCap() int {
	if v, err := strconv.Atoi(os.Getenv("VERIF_XLOG_CAP")); err == nil && v > 0 {
		return v
	}
	return 60
}

func xlog(op string, args []string, rep string) {
	if !xlogOps[op] {
		return
	}
	path := os.Getenv("VERIF_XLOG")
	if path == "" {
		return
	}
	n := len(rep)
	for _, a := range args {
		n += len(a)
	}
	if n > 3000 {
		return
	}
	xlogMu.Lock()
	defer xlogMu.Unlock()
	if xlogCount[op] >= xlogCap() {
		return
	}
	if xlogFile == nil {
		f, err := os.OpenFile(path, os.O_CREATE|os.O_APPEND|os.O_WRONLY, 0o644)
		if err != nil {
			return
		}
		xlogFile = f
	}
	xlogCount[op]++
	fmt.Fprintf(xlogFile, "%s\t%s\t%s\n", op, strings.Join(args, " "), rep)
}
func (p *Pool) Close() {
	for _, m := range p.ms {
		m.Close()
	}
}

// ---------- encoding helpers ----------

func Hex(b []byte) string {
	if len(b) == 0 {
		return "_"
	}
	return hex.EncodeToString(b)
}
func UnHex(s string) []byte {
	if s == "_" || s == "" {
		return nil
	}
	b, _ := hex.DecodeString(s)
	return b
}
func Ints(xs []int) string {
	if len(xs) == 0 {
		return "_"
	}
	var sb strings.Builder
	for i, x := range xs {
		if i > 0 {
			sb.WriteByte(',')
		}
		sb.WriteString(strconv.Itoa(x))
	}
	return sb.String()
}
func Ints32(xs []int32) string {
	if len(xs) == 0 {
		return "_"
	}
	var sb strings.Builder
	for i, x := range xs {
		if i > 0 {
			sb.WriteByte(',')
		}
		sb.WriteString(strconv.Itoa(int(x)))
	}
	return sb.String()
}
func ParseInts(s string) []int {
	if s == "_" || s == "" {
		return nil
	}
	parts := strings.Split(s, ",")
	out := make([]int, len(parts))
	for i, p := range parts {
		out[i], _ = strconv.Atoi(p)
	}
	return out
}

// ---------- result accumulation ----------

type Failure struct {
	Kind  string      `json:"kind"`  // "oracle" (property fails on the implementation) or "corr" (model != impl)
	Suite string      `json:"suite"` // which sub-check
	Sig   string      `json:"sig"`   // specific signature for known-findings matching
	What  string      `json:"what"`
	Input interface{} `json:"input"`
}

type Result struct {
	mu          sync.Mutex
	Property    string         `json:"property"`
	Tier        string         `json:"tier"`
	Seed        uint64         `json:"seed"`
	Evaluations int            `json:"evaluations"`
	Nontrivial  int            `json:"distinct_nontrivial"`
	Rule        string         `json:"rule"`
	Samples     []interface{}  `json:"samples"`
	Dist        map[string]int `json:"distribution"`
	CorrCases   map[string]int `json:"corr_cases"`   // per suite: model-vs-impl comparisons made
	OracleCases map[string]int `json:"oracle_cases"` // per suite: property evaluations on impl
	Failures    []Failure      `json:"failures"`
	Notes       []string       `json:"notes"`
	seen        map[string]bool
	firstKeys   []string // fallback samples: identifiers of the first cases
}

func NewResult(prop, tier string, seed uint64) *Result {
	return &Result{Property: prop, Tier: tier, Seed: seed, Dist: map[string]int{},
		CorrCases: map[string]int{}, OracleCases: map[string]int{}, seen: map[string]bool{}}
}

// Case records one explored case; key identifies it for distinctness; nontrivial by the suite's rule.
func (r *Result) Case(key string, nontrivial bool, distKeys ...string) {
	r.mu.Lock()
	defer r.mu.Unlock()
	r.Evaluations++
	if len(r.firstKeys) < 3 && key != "" {
		k := key
		if len(k) > 600 {
			k = k[:600] + "..."
		}
		r.firstKeys = append(r.firstKeys, k)
	}
	if nontrivial && !r.seen[key] {
		r.seen[key] = true
		r.Nontrivial++
	}
	for _, k := range distKeys {
		r.Dist[k]++
	}
}
func (r *Result) Sample(s interface{}) {
	r.mu.Lock()
	defer r.mu.Unlock()
	if len(r.Samples) < 6 {
		r.Samples = append(r.Samples, s)
	}
}
func (r *Result) Corr(suite string)   { r.mu.Lock(); r.CorrCases[suite]++; r.mu.Unlock() }
func (r *Result) Oracle(suite string) { r.mu.Lock(); r.OracleCases[suite]++; r.mu.Unlock() }
func (r *Result) Note(format string, a ...interface{}) {
	r.mu.Lock()
	r.Notes = append(r.Notes, fmt.Sprintf(format, a...))
	r.mu.Unlock()
}
func (r *Result) Fail(kind, suite, sig, what string, input interface{}) {
	r.mu.Lock()
	defer r.mu.Unlock()
	// keep at most 5 failures per (kind,suite,sig)
	n := 0
	for _, f := range r.Failures {
		if f.Kind == kind && f.Suite == suite && f.Sig == sig {
			n++
		}
	}
	if n < 5 {
		r.Failures = append(r.Failures, Failure{kind, suite, sig, what, input})
	}
}
func (r *Result) NFailures() int { r.mu.Lock(); defer r.mu.Unlock(); return len(r.Failures) }

func (r *Result) Write(path string) error {
	r.mu.Lock()
	defer r.mu.Unlock()
	if len(r.Samples) == 0 {
		for _, k := range r.firstKeys {
			r.Samples = append(r.Samples, map[string]string{"case": k})
		}
	}
	sort.SliceStable(r.Failures, func(i, j int) bool { return r.Failures[i].Kind > r.Failures[j].Kind })
	b, err := json.MarshalIndent(r, "", " ")
	if err != nil {
		return err
	}
	return os.WriteFile(path, b, 0o644)
}

// Safely runs f, reporting a panic as (true, message).
func Safely(f func()) (panicked bool, msg string) {
	defer func() {
		if e := recover(); e != nil {
			panicked = true
			msg = fmt.Sprint(e)
		}
	}()
	f()
	return false, ""
}

// ParallelFor runs f(i) for i in [0,n) on `workers` goroutines.
func ParallelFor(n, workers int, f func(i int)) {
	var wg sync.WaitGroup
	ch := make(chan int)
	for w := 0; w < workers; w++ {
		wg.Add(1)
		go func() {
			defer wg.Done()
			for i := range ch {
				f(i)
			}
		}()
	}
	for i := 0; i < n; i++ {
		ch <- i
	}
	close(ch)
	wg.Wait()
}

// Count increments a distribution bucket.
func (r *Result) Count(key string) { r.mu.Lock(); r.Dist[key]++; r.mu.Unlock() }
