module verif/harness

go 1.25.0

require github.com/cocosip/go-dicom-codecs v0.0.0

replace github.com/cocosip/go-dicom-codecs => /repo
