(* T1Safe: panic-explicit control skeleton of the EBCOT tier-1 block decoder on arbitrary input
   (coq/T1Safe/T1sModel.v), MQ decisions given as an oracle bit list. *)
open BinNums
open Conv

let t1s_reply (o : T1sModel.dst Base.outcome) : string =
  match T1sModel.t1s_class o with
  | Base.Ok w -> "ok:" ^ string_of_int (int_of_z w)
  | Base.Err -> "err"
  | Base.Panic -> "panic"
  | Base.OutOfFuel -> "fuel"

let t1s_zi s = z_of_int (int_of_string s)
let t1s_b01 s = (s = "1")

let register (reg : string -> (string list -> string) -> unit) : unit =
  (* t1s_layered w h orient style hexdata lens maxbp roishift useT lossless bits
     -> ok:<work> | err | panic | fuel     (NewT1Decoder + DecodeLayeredWithMode + GetData) *)
  reg "t1s_layered" (fun a -> match a with
    | [w; h; o; st; hx; lens; mb; roi; ut; ll; bits] ->
      t1s_reply
        (T1sModel.t1s_layered (t1s_zi w) (t1s_zi h) (t1s_zi o) (t1s_zi st) (bytes_of_hex hx)
           (zlist_of_string lens) (t1s_zi mb) (t1s_zi roi) (t1s_b01 ut) (t1s_b01 ll)
           (zlist_of_string bits))
    | _ -> "?");
  (* t1s_bitplane w h orient style hexdata numPasses maxbp roishift bits
     (NewT1Decoder + DecodeWithBitplane + GetData) *)
  reg "t1s_bitplane" (fun a -> match a with
    | [w; h; o; st; hx; np; mb; roi; bits] ->
      t1s_reply
        (T1sModel.t1s_bitplane (t1s_zi w) (t1s_zi h) (t1s_zi o) (t1s_zi st) (bytes_of_hex hx)
           (t1s_zi np) (t1s_zi mb) (t1s_zi roi) (zlist_of_string bits))
    | _ -> "?");
  (* t1s_block w h orient style hexdata lens numPasses maxbp useT bits
     (dispatch of t2/tile_decoder.go decodeCodeBlock) *)
  reg "t1s_block" (fun a -> match a with
    | [w; h; o; st; hx; lens; np; mb; ut; bits] ->
      t1s_reply
        (T1sModel.t1s_block (t1s_zi w) (t1s_zi h) (t1s_zi o) (t1s_zi st) (bytes_of_hex hx)
           (zlist_of_string lens) (t1s_zi np) (t1s_zi mb) (t1s_b01 ut) (zlist_of_string bits))
    | _ -> "?");
  (* t1s_layered_mem w h orient style hexdata lens maxbp roishift useT lossless bits
     -> ok:<bytes requested with make()> | err | panic | fuel *)
  reg "t1s_layered_mem" (fun a -> match a with
    | [w; h; o; st; hx; lens; mb; roi; ut; ll; bits] ->
      (match T1sModel.t1s_layered_mem (t1s_zi w) (t1s_zi h) (t1s_zi o) (t1s_zi st) (bytes_of_hex hx)
               (zlist_of_string lens) (t1s_zi mb) (t1s_zi roi) (t1s_b01 ut) (t1s_b01 ll)
               (zlist_of_string bits) with
       | Base.Ok m -> "ok:" ^ string_of_int (int_of_z m)
       | Base.Err -> "err"
       | Base.Panic -> "panic"
       | Base.OutOfFuel -> "fuel")
    | _ -> "?");
  ()

let () = registrars := register :: !registrars
