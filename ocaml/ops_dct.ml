(* JPEG DCT area (C11, C15): table scaling, DQT bytes, quantiser, integer DCT/IDCT, colour
   conversion, decoder geometry, whole lossy pipeline. *)
open BinNums
open Conv

let zl = zlist_of_string
let sz = string_of_zlist
let zi s = z_of_int (int_of_string s)

let base_table (s : string) : coq_Z list =
  match s with
  | "luma" -> JpegTables_gen.jpeg_qt_luma
  | "chroma" -> JpegTables_gen.jpeg_qt_chroma
  | _ -> zl s

(* "h,v,h,v,..." -> [(h,v);...] *)
let rec pairs_of (l : coq_Z list) : (coq_Z * coq_Z) list =
  match l with a :: b :: t -> (a, b) :: pairs_of t | _ -> []

let register (reg : string -> (string list -> string) -> unit) : unit =
  (* dct_scaleq <luma|chroma|list> <quality> -> 64 entries, natural order *)
  reg "dct_scaleq" (fun a -> match a with
    | [b; q] -> sz (DctQuant.scale_quant_table (base_table b) (zi q))
    | _ -> "?");
  (* dct_dqt <id> <luma|chroma> <quality> -> hex of the DQT segment as the baseline encoder writes it *)
  reg "dct_dqt" (fun a -> match a with
    | [id; b; q] -> hex_of_bytes (DctZigzag.dqt_segment (zi id) (DctQuant.scale_quant_table (base_table b) (zi q)))
    | _ -> "?");
  (* dct_parse_dqt <payload hex> -> "id:table;id:table" | err *)
  reg "dct_parse_dqt" (fun a -> match a with
    | [h] -> let d = bytes_of_hex h in
      (match DctZigzag.parse_dqt (nat_of_int (L.length d)) d with
       | None -> "err"
       | Some ts -> "ok:" ^ String.concat ";" (L.map (fun (id, t) -> string_of_int (int_of_z id) ^ ":" ^ sz t) ts))
    | _ -> "?");
  reg "dct_zigzag" (fun _ -> sz DctZigzag.zigzag ^ ";" ^ sz DctZigzag.unzig);
  reg "dct_quant8" (fun a -> match a with
    | [c; q] -> sz (DctQuant.quant_block8 (zl c) (zl q)) | _ -> "?");
  reg "dct_quant12" (fun a -> match a with
    | [c; q] -> sz (DctQuant.quant_block12 (zl c) (zl q)) | _ -> "?");
  reg "dct_fdct" (fun a -> match a with
    | [b] -> sz (DctIslow.dct_islow (zl b)) | _ -> "?");
  reg "dct_fdct12" (fun a -> match a with
    | [b] -> sz (DctIslow.dct_islow12 (zl b)) | _ -> "?");
  reg "dct_idct" (fun a -> match a with
    | [c; q] -> sz (DctIslow.idct_islow (zl c) (zl q)) | _ -> "?");
  reg "dct_rgb2ycc" (fun a -> match a with
    | [p] -> sz (DctColor.rgb_to_ycc_list (zl p)) | _ -> "?");
  reg "dct_ycc2rgb" (fun a -> match a with
    | [p] -> sz (DctColor.ycc_to_rgb_list (zl p)) | _ -> "?");
  (* dct_geom <w> <h> <h,v,h,v,...> -> "mcuCols,mcuRows;wb,hb,len;wb,hb,len..." *)
  reg "dct_geom" (fun a -> match a with
    | [w; h; cs] ->
      let w = zi w and h = zi h and comps = pairs_of (zl cs) in
      let i = int_of_z in
      Printf.sprintf "%d,%d" (i (DctGeometry.mcu_cols w comps)) (i (DctGeometry.mcu_rows h comps)) ^
      String.concat "" (L.map (fun hv -> Printf.sprintf ";%d,%d,%d"
        (i (DctGeometry.comp_wb w comps hv)) (i (DctGeometry.comp_hb h comps hv)) (i (DctGeometry.comp_len w h comps hv))) comps)
    | _ -> "?");
  (* dct_grid <w> <h> <h,v,...> <component index> -> for every block (bx,by) of the allocated grid,
     row-major, the scan block that finally owns it: "x.y,x.y,..." ("-" = never written) *)
  reg "dct_grid" (fun a -> match a with
    | [w; h; cs; ci] ->
      let w = zi w and h = zi h and comps = pairs_of (zl cs) in
      let hv = L.nth comps (int_of_string ci) in
      let wb = DctGeometry.comp_wb w comps hv and hb = DctGeometry.comp_hb h comps hv in
      let sb = DctGeometry.scan_blocks w h comps hv in
      let out = ref [] in
      for by = 0 to int_of_z hb - 1 do
        for bx = 0 to int_of_z wb - 1 do
          let o = DctGeometry.block_offset wb (z_of_int bx) (z_of_int by) in
          out := (match DctGeometry.last_writer wb hb sb o with
                  | Some (x, y) -> Printf.sprintf "%d.%d" (int_of_z x) (int_of_z y)
                  | None -> "-") :: !out
        done
      done;
      if !out = [] then "_" else String.concat "," (L.rev !out)
    | _ -> "?");
  (* dct_pipe8 <w> <h> <comps> <quality> <pixels hex> -> decoded pixels hex *)
  reg "dct_pipe8" (fun a -> match a with
    | [w; h; c; q; px] -> hex_of_bytes (DctPipeline.pipeline8 (zi w) (zi h) (zi c) (zi q) (bytes_of_hex px))
    | _ -> "?");
  (* dct_coefs8 <w> <h> <quality> <pixels hex> -> quantised blocks of a grey image, raster order, "b;b;..." *)
  reg "dct_coefs8" (fun a -> match a with
    | [w; h; q; px] -> String.concat ";" (L.map sz (DctPipeline.enc_grey_coefs (zi w) (zi h) (zi q) (bytes_of_hex px)))
    | _ -> "?");
  (* dct_coefs12 <w> <h> <quality> <samples> -> the same for the 12-bit encoder *)
  reg "dct_coefs12" (fun a -> match a with
    | [w; h; q; px] -> String.concat ";" (L.map sz (DctPipeline.enc12_coefs (zi w) (zi h) (zi q) (zl px)))
    | _ -> "?");
  (* dct_owners <w> <h> <h,v,...> <component index> -> per pixel, row-major: scan block shown "x.y" or "-" *)
  reg "dct_owners" (fun a -> match a with
    | [w; h; cs; ci] ->
      let comps = pairs_of (zl cs) in
      let hv = L.nth comps (int_of_string ci) in
      String.concat "," (L.map (fun o -> match o with
        | Some (x, y) -> Printf.sprintf "%d.%d" (int_of_z x) (int_of_z y)
        | None -> "-") (DctPipeline.pixel_owners (zi w) (zi h) comps hv))
    | _ -> "?");
  (* dct_rst <restartInt> <nMCU> <bytes after the SOS header, hex> ->
     "ok:<number of restart intervals found>" | "err" (an MCU needs an interval that is missing) *)
  reg "dct_rst" (fun a -> match a with
    | [ri; n; d] ->
      let ivs = DctRestart.split_rst (zi ri) (bytes_of_hex d) in
      (match DctRestart.mcu_plan (zi ri) (z_of_int (L.length ivs)) (nat_of_int (int_of_string n)) with
       | None -> "err"
       | Some _ -> "ok:" ^ string_of_int (L.length ivs))
    | _ -> "?");
  ()

let () = registrars := register :: !registrars
