(* MQ arithmetic coder (jpeg2000/mqc): encoder, decoder, raw decoder, API scripts. *)
open BinNums
open Conv

(* "b:c,b:c,..." -> (bit, ctx) list ; "_" empty *)
let pairs_of_string (s : string) : (coq_Z * coq_Z) list =
  if s = "" || s = "_" then []
  else L.map (fun t -> match String.split_on_char ':' t with
      | [b; c] -> (z_of_int (int_of_string b), z_of_int (int_of_string c))
      | _ -> failwith "pair") (String.split_on_char ',' s)

(* "op:x:y,..." -> commands *)
let cmds_of_string (s : string) : ((coq_Z * coq_Z) * coq_Z) list =
  if s = "" || s = "_" then []
  else L.map (fun t -> match String.split_on_char ':' t with
      | [o; x; y] -> ((z_of_int (int_of_string o), z_of_int (int_of_string x)), z_of_int (int_of_string y))
      | _ -> failwith "cmd") (String.split_on_char ',' s)

let bits_to_string (l : coq_Z list) : string =
  if l = [] then "_" else begin
    let b = Buffer.create 1024 in
    L.iter (fun x -> Buffer.add_string b (string_of_int (int_of_z x))) l;
    Buffer.contents b end

let enc_state_string (e : MqModel.enc) : string =
  Printf.sprintf "%s|%d|%d,%d,%d,%d,%d|%s|%d,%d"
    (hex_of_bytes (MqModel.enc_get_buffer e))
    (int_of_z (MqModel.enc_num_bytes e))
    (int_of_z e.MqModel.e_a) (int_of_z e.MqModel.e_c) (int_of_z e.MqModel.e_ct)
    (int_of_z (MqModel.enc_bp e)) (int_of_z (MqModel.enc_buflen e))
    (string_of_zlist e.MqModel.e_cx)
    (int_of_z (MqModel.enc_bypass_extra_bytes e false))
    (int_of_z (MqModel.enc_bypass_extra_bytes e true))

let outcome_string (f : 'a -> string) (o : 'a Base.outcome) : string =
  match o with
  | Base.Ok x -> "ok:" ^ f x
  | Base.Err -> "err"
  | Base.Panic -> "panic"
  | Base.OutOfFuel -> "fuel"

let register (reg : string -> (string list -> string) -> unit) : unit =
  (* mq_encode <nctx> <pairs> -> hex of Flush() *)
  reg "mq_encode" (fun a -> match a with
    | [n; ps] -> hex_of_bytes (MqModel.mq_encode (nat_of_int (int_of_string n)) (pairs_of_string ps))
    | _ -> "?");
  (* mq_decode <nctx> <ctxlist> <hex> -> ok:<bits> | panic | fuel *)
  reg "mq_decode" (fun a -> match a with
    | [n; cs; h] ->
      outcome_string bits_to_string
        (MqModel.mq_decode (nat_of_int (int_of_string n)) (bytes_of_hex h) (zlist_of_string cs))
    | _ -> "?");
  (* same with explicit initial context bytes (state | mps<<7), as SetContextState / NewMQDecoderWithContexts *)
  reg "mq_encode_cx" (fun a -> match a with
    | [cx; ps] -> hex_of_bytes (MqModel.mq_encode_cx (zlist_of_string cx) (pairs_of_string ps))
    | _ -> "?");
  reg "mq_decode_cx" (fun a -> match a with
    | [cx; cs; h] ->
      outcome_string bits_to_string
        (MqModel.mq_decode_cx (zlist_of_string cx) (bytes_of_hex h) (zlist_of_string cs))
    | _ -> "?");
  (* mq_script <nctx> <cmds> -> ok:<GetBuffer hex>|NumBytes|a,c,ct,bp,len|contexts|extra(false),extra(true) *)
  reg "mq_script" (fun a -> match a with
    | [n; cs] ->
      outcome_string enc_state_string
        (MqModel.enc_run (MqModel.enc_new (nat_of_int (int_of_string n))) (cmds_of_string cs))
    | _ -> "?");
  (* encode then ErtermEnc, GetBuffer *)
  reg "mq_encode_erterm" (fun a -> match a with
    | [n; ps] ->
      let e = MqModel.enc_encode_list (MqModel.enc_new (nat_of_int (int_of_string n))) (pairs_of_string ps) in
      hex_of_bytes (MqModel.enc_get_buffer (MqModel.enc_erterm e))
    | _ -> "?");
  (* mq_mixed <ctxbytes> <kind:ctx,...> <hex> : Decode(ctx) (kind 0) / RawDecode() (kind 1) interleaved
     on one decoder -> ok:<bits>;bp *)
  reg "mq_mixed" (fun a -> match a with
    | [cx; ops; h] ->
      outcome_string (fun (d, bits) -> bits_to_string bits ^ ";" ^ string_of_int (int_of_z d.MqModel.d_bp))
        (Base.obind (MqModel.dec_new_cx (bytes_of_hex h) (zlist_of_string cx))
           (fun d -> MqModel.dec_mixed_list d (pairs_of_string ops)))
    | _ -> "?");
  (* mq_rawdecode <nbits> <hex> -> ok:<bits> *)
  reg "mq_rawdecode" (fun a -> match a with
    | [n; h] ->
      outcome_string (fun p -> bits_to_string (snd p))
        (MqModel.raw_decode_n (nat_of_int (int_of_string n)) (MqModel.raw_new (bytes_of_hex h)))
    | _ -> "?");
  ()

let () = registrars := register :: !registrars
