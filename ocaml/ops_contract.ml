(* Contract area (C10): the decoded-frame size formula of CtrFrames.v. *)
open BinNums
open Conv

let register (reg : string -> (string list -> string) -> unit) : unit =
  (* ctr_len rows cols spp bits_allocated rle(0|1) -> required length of a decoded frame *)
  reg "ctr_len" (fun a -> match a with
    | [r; c; s; b; rle] ->
      let z x = z_of_int (int_of_string x) in
      let n = if rle = "1" then CtrFrames.rle_decoded_len (z r) (z c) (z s) (z b)
              else CtrFrames.decoded_len (z r) (z c) (z s) (z b) in
      string_of_int (int_of_z n)
    | _ -> "?");
  ()

let () = registrars := register :: !registrars
