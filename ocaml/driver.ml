(* Line protocol around the extracted model: one request per line "op arg arg ...",
   one reply per line. Unknown op -> "?" ; exception -> "!exn <msg>". *)
let handlers : (string, string list -> string) Hashtbl.t = Hashtbl.create 64
let reg name f = Hashtbl.replace handlers name f

let () =
  reg "ping" (fun _ -> "pong");
  Stdlib.List.iter (fun r -> r reg) !Conv.registrars

let () =
  (try
    while true do
      let line = input_line stdin in
      let reply =
        match String.split_on_char ' ' line with
        | [] -> "?"
        | op :: args ->
          (match Hashtbl.find_opt handlers op with
           | None -> "?"
           | Some f -> (try f args with
                        | Stack_overflow -> "!exn stack_overflow"
                        | e -> "!exn " ^ Printexc.to_string e))
      in
      print_string reply; print_char '\n'; flush stdout
    done
  with End_of_file -> ())
