(* JPEG-LS (C03, C07, C14): models of jpegls/lossless and jpegls/nearlossless, and the
   independent T.87 decoder.
     jls_encode  <w> <h> <comps> <P> <hexpixels>          -> ok:<hex> | err | panic | fuel
     jlsn_encode <w> <h> <comps> <P> <near> <hexpixels>   -> ok:<hex> | err | panic | fuel
     jls_decode  <hex> | jlsn_decode <hex> | t87_decode <hex>
                                   -> ok:<w>,<h>,<comps>,<P>,<near>:<hexpixels> | err | panic | fuel
     jls_params  <P> <near>   -> maxval,near,range,qbpp,limit,t1,t2,t3,reset  (as coded)
     t87_params  <P> <near>   -> the same from the T.87 formulas
     jls_decode_safe <hex> | jlsn_decode_safe <hex>  -> as jls_decode, through the index-explicit twins (JlsSafe)
     jls_gr <hexdata> <n,n,...>  -> <v,v,...>|ok / |end  reads through the GolombReader as coded (n = 0: ReadBit,
                                    n > 0: ReadBits(n)); stops at the first error; panic / fuel if a check fires
     jls_bl <hexdata> <n,n,...>  -> the same on the bit-list semantics used by the decoder models
     jls_gw <item,item,...>   -> hex of the GolombWriter output incl. Flush; item = v:n (WriteBits(v,n))
                                 or e:k:m:limit:qbpp (EncodeMappedValue) *)
open BinNums
open Conv

(* samples limit for the decoders: the Go code allocates width*height*components ints *)
let lim = z_of_int (1 lsl 26)

let outcome_bytes (o : coq_Z list Base.outcome) : string =
  match o with
  | Base.Ok b -> "ok:" ^ hex_of_bytes b
  | Base.Err -> "err" | Base.Panic -> "panic" | Base.OutOfFuel -> "fuel"

let dec_reply w h c p near px =
  Printf.sprintf "ok:%d,%d,%d,%d,%d:%s" (int_of_z w) (int_of_z h) (int_of_z c) (int_of_z p)
    (int_of_z near) (hex_of_bytes px)

let outcome_decoded (o : JlsModel.decoded Base.outcome) : string =
  match o with
  | Base.Ok d ->
    dec_reply d.JlsModel.dc_w d.JlsModel.dc_h d.JlsModel.dc_comps d.JlsModel.dc_bd
      d.JlsModel.dc_near d.JlsModel.dc_pixels
  | Base.Err -> "err" | Base.Panic -> "panic" | Base.OutOfFuel -> "fuel"

let outcome_t87 (o : JlsT87Dec.t87_image Base.outcome) : string =
  match o with
  | Base.Ok d ->
    dec_reply d.JlsT87Dec.ti_w d.JlsT87Dec.ti_h d.JlsT87Dec.ti_comps d.JlsT87Dec.ti_P
      d.JlsT87Dec.ti_near d.JlsT87Dec.ti_pixels
  | Base.Err -> "err" | Base.Panic -> "panic" | Base.OutOfFuel -> "fuel"

let params_string (p : JlsParams.jparams) : string =
  String.concat "," (L.map (fun x -> string_of_int (int_of_z x))
    [p.JlsParams.jp_maxval; p.JlsParams.jp_near; p.JlsParams.jp_range; p.JlsParams.jp_qbpp;
     p.JlsParams.jp_limit; p.JlsParams.jp_t1; p.JlsParams.jp_t2; p.JlsParams.jp_t3;
     p.JlsParams.jp_reset])

let zi s = z_of_int (int_of_string s)

let register (reg : string -> (string list -> string) -> unit) : unit =
  reg "jls_encode" (fun a -> match a with
    | [w; h; c; p; px] -> outcome_bytes (JlsModel.jls_encode (zi w) (zi h) (zi c) (zi p) (bytes_of_hex px))
    | _ -> "?");
  reg "jlsn_encode" (fun a -> match a with
    | [w; h; c; p; near; px] ->
      outcome_bytes (JlsModel.jlsn_encode (zi w) (zi h) (zi c) (zi p) (zi near) (bytes_of_hex px))
    | _ -> "?");
  reg "jls_decode" (fun a -> match a with
    | [s] -> outcome_decoded (JlsModel.jls_decode lim (bytes_of_hex s))
    | _ -> "?");
  reg "jlsn_decode" (fun a -> match a with
    | [s] -> outcome_decoded (JlsModel.jlsn_decode lim (bytes_of_hex s))
    | _ -> "?");
  reg "t87_decode" (fun a -> match a with
    | [s] -> outcome_t87 (JlsT87Dec.t87_decode lim (bytes_of_hex s))
    | _ -> "?");
  reg "jls_decode_safe" (fun a -> match a with
    | [s] -> outcome_decoded (JlsSafe.jls_decode_safe lim (bytes_of_hex s))
    | _ -> "?");
  reg "jlsn_decode_safe" (fun a -> match a with
    | [s] -> outcome_decoded (JlsSafe.jlsn_decode_safe lim (bytes_of_hex s))
    | _ -> "?");
  reg "jls_gr" (fun a -> match a with
    | [d; sc] ->
      (match JlsSafe.gr_script (bytes_of_hex d) (zlist_of_string sc) with
       | Base.Ok (vs, fin) -> string_of_zlist vs ^ (if fin then "|ok" else "|end")
       | Base.Err -> "err" | Base.Panic -> "panic" | Base.OutOfFuel -> "fuel")
    | _ -> "?");
  reg "jls_bl" (fun a -> match a with
    | [d; sc] ->
      let (vs, fin) = JlsSafe.bl_script (bytes_of_hex d) (zlist_of_string sc) in
      string_of_zlist vs ^ (if fin then "|ok" else "|end")
    | _ -> "?");
  reg "jls_gw" (fun a -> match a with
    | [s] ->
      let items = if s = "_" then [] else String.split_on_char ',' s in
      let ops = L.concat_map (fun it ->
        match String.split_on_char ':' it with
        | ["e"; k; m; limit; qbpp] -> JlsGolomb.encode_mapped_ops (zi k) (zi m) (zi limit) (zi qbpp)
        | [v; n] -> [(zi v, zi n)]
        | _ -> failwith "item") items in
      hex_of_bytes (JlsGolomb.gw_run ops)
    | _ -> "?");
  reg "jls_params" (fun a -> match a with
    | [p; near] -> params_string (JlsParams.jls_params (zi p) (zi near))
    | _ -> "?");
  reg "t87_params" (fun a -> match a with
    | [p; near] -> params_string (JlsParams.t87_params (zi p) (zi near))
    | _ -> "?");
  ()

let () = registrars := register :: !registrars
