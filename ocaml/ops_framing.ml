(* Framing area (C16/C17): codestream walkers, writer models, encoder guards. *)
open BinNums
open Conv

let zi = int_of_z
let zs x = string_of_int (int_of_z x)

let reason_name (r : FrmBase.reason) : string = match r with
  | FrmBase.RTruncated -> "truncated" | FrmBase.RNoStart -> "no-start-marker"
  | FrmBase.RExpectedMarker -> "expected-marker" | FrmBase.RSegLenSmall -> "seglen<2"
  | FrmBase.RSegOverrun -> "seglen-overrun" | FrmBase.RBadMarker -> "bad-marker"
  | FrmBase.RTrailing -> "trailing-bytes" | FrmBase.RFuel -> "fuel"
  | FrmBase.RDqtSyntax -> "dqt-syntax" | FrmBase.RDqtZero -> "dqt-zero-entry"
  | FrmBase.RDhtSyntax -> "dht-syntax" | FrmBase.RDhtKraft -> "dht-kraft"
  | FrmBase.RDriSyntax -> "dri-syntax" | FrmBase.RSofLen -> "sof-length"
  | FrmBase.RSofPrecision -> "sof-precision" | FrmBase.RSofDims -> "sof-zero-dimension"
  | FrmBase.RSofNf -> "sof-nf" | FrmBase.RSofComp -> "sof-component"
  | FrmBase.RSofDup -> "sof-duplicate" | FrmBase.RSosBeforeSof -> "sos-before-sof"
  | FrmBase.RSosLen -> "sos-length" | FrmBase.RSosNs -> "sos-ns"
  | FrmBase.RSosComp -> "sos-component" | FrmBase.RSosTable -> "sos-table"
  | FrmBase.RSosQuant -> "sos-quant-table" | FrmBase.RSosParams -> "sos-params"
  | FrmBase.RSosMcu -> "sos-mcu" | FrmBase.REcsEof -> "ecs-eof"
  | FrmBase.REcsMarker -> "ecs-marker" | FrmBase.REcsFill -> "ecs-ff-ff"
  | FrmBase.RNoFrame -> "no-frame" | FrmBase.RNoScan -> "no-scan"
  | FrmBase.RLseSyntax -> "lse-syntax" | FrmBase.RJlsNear -> "near-range"
  | FrmBase.RJlsIlv -> "ilv" | FrmBase.RJlsMap -> "mapping-table"
  | FrmBase.RSizLen -> "siz-length" | FrmBase.RSizRange -> "siz-range"
  | FrmBase.RSizTiles -> "siz-tiles" | FrmBase.RCodSyntax -> "cod-syntax"
  | FrmBase.RCodMissing -> "cod-missing" | FrmBase.RCodDup -> "cod-duplicate"
  | FrmBase.RQcdSyntax -> "qcd-syntax" | FrmBase.RQcdMissing -> "qcd-missing"
  | FrmBase.RQcdDup -> "qcd-duplicate" | FrmBase.RQcdStyle -> "qcd-style"
  | FrmBase.RTlmSyntax -> "tlm-syntax" | FrmBase.RTlmMismatch -> "tlm-mismatch"
  | FrmBase.RSegSyntax -> "segment-syntax" | FrmBase.RSotLen -> "sot-length"
  | FrmBase.RSotIsot -> "sot-isot" | FrmBase.RSotPsot -> "sot-psot"
  | FrmBase.RSotTpsot -> "sot-tpsot" | FrmBase.RPsotOverrun -> "psot-overrun"
  | FrmBase.RPsotNext -> "psot-sum" | FrmBase.RTileMarker -> "tile-marker"
  | FrmBase.RTileEndsFF -> "tile-ends-ff" | FrmBase.RTileMissing -> "tile-missing"
  | FrmBase.RNoTiles -> "no-tiles"

let bad r off = Printf.sprintf "bad:%s@%d" (reason_name r) (zi off)

let join sep f l = String.concat sep (L.map f l)
let nonempty s = if s = "" then "_" else s

let jpeg_reply (h : FrmJpeg.jpeg_header) : string =
  let f = h.FrmJpeg.jh_frame in
  let comp (((c, hh), v), t) = Printf.sprintf "%d/%d/%d/%d" (zi c) (zi hh) (zi v) (zi t) in
  let scomp ((c, td), ta) = Printf.sprintf "%d/%d/%d" (zi c) (zi td) (zi ta) in
  let scan (s : FrmJpeg.jscan) =
    Printf.sprintf "%s:%d:%d:%d:%d" (nonempty (join "," scomp s.FrmJpeg.sc_comps))
      (zi s.FrmJpeg.sc_ss) (zi s.FrmJpeg.sc_se) (zi s.FrmJpeg.sc_ah) (zi s.FrmJpeg.sc_al) in
  Printf.sprintf "ok:sof=%d;p=%d;y=%d;x=%d;nf=%d;comps=%s;scans=%s;ri=%d;napp=%d"
    (zi f.FrmJpeg.jf_sof) (zi f.FrmJpeg.jf_p) (zi f.FrmJpeg.jf_y) (zi f.FrmJpeg.jf_x)
    (zi f.FrmJpeg.jf_nf) (nonempty (join "," comp f.FrmJpeg.jf_comps))
    (nonempty (join "|" scan h.FrmJpeg.jh_scans)) (zi h.FrmJpeg.jh_ri) (zi h.FrmJpeg.jh_napp)

let jls_reply (h : FrmJls.jls_header) : string =
  let comp (((c, hh), v), t) = Printf.sprintf "%d/%d/%d/%d" (zi c) (zi hh) (zi v) (zi t) in
  let scomp (c, tm) = Printf.sprintf "%d/%d" (zi c) (zi tm) in
  let scan (s : FrmJls.lscan) =
    Printf.sprintf "%s:%d:%d:%d" (nonempty (join "," scomp s.FrmJls.ls_comps))
      (zi s.FrmJls.ls_near) (zi s.FrmJls.ls_ilv) (zi s.FrmJls.ls_al) in
  let preset = match h.FrmJls.lh_preset with
    | None -> "none"
    | Some q -> Printf.sprintf "%d/%d/%d/%d/%d" (zi q.FrmJls.lp_maxval) (zi q.FrmJls.lp_t1)
                  (zi q.FrmJls.lp_t2) (zi q.FrmJls.lp_t3) (zi q.FrmJls.lp_reset) in
  Printf.sprintf "ok:p=%d;y=%d;x=%d;nf=%d;comps=%s;scans=%s;preset=%s;ri=%d"
    (zi h.FrmJls.lh_p) (zi h.FrmJls.lh_y) (zi h.FrmJls.lh_x) (zi h.FrmJls.lh_nf)
    (nonempty (join "," comp h.FrmJls.lh_comps)) (nonempty (join "|" scan h.FrmJls.lh_scans))
    preset (zi h.FrmJls.lh_ri)

let j2k_reply (h : FrmJ2k.j2k_header) : string =
  let c = h.FrmJ2k.jk_cod in
  let comp ((s, xr), yr) = Printf.sprintf "%d/%d/%d" (zi s) (zi xr) (zi yr) in
  let parts = h.FrmJ2k.jk_tileparts in
  let psum = L.fold_left (fun a (_, p) -> a + zi p) 0 parts in
  let maxisot = L.fold_left (fun a (i, _) -> max a (zi i)) (-1) parts in
  Printf.sprintf
    "ok:rsiz=%d;xsiz=%d;ysiz=%d;xosiz=%d;yosiz=%d;xtsiz=%d;ytsiz=%d;xtosiz=%d;ytosiz=%d;csiz=%d;comps=%s;ntiles=%d;scod=%d;prog=%d;layers=%d;mct=%d;levels=%d;xcb=%d;ycb=%d;style=%d;transform=%d;precincts=%s;sqcd=%d;nparts=%d;psotsum=%d;maxisot=%d;tlm=%s;ncom=%d;ncap=%d;nmct=%d;nrgn=%d"
    (zi h.FrmJ2k.jk_rsiz) (zi h.FrmJ2k.jk_xsiz) (zi h.FrmJ2k.jk_ysiz) (zi h.FrmJ2k.jk_xosiz)
    (zi h.FrmJ2k.jk_yosiz) (zi h.FrmJ2k.jk_xtsiz) (zi h.FrmJ2k.jk_ytsiz) (zi h.FrmJ2k.jk_xtosiz)
    (zi h.FrmJ2k.jk_ytosiz) (zi h.FrmJ2k.jk_csiz) (nonempty (join "," comp h.FrmJ2k.jk_comps))
    (zi h.FrmJ2k.jk_ntiles) (zi c.FrmJ2k.cd_scod) (zi c.FrmJ2k.cd_prog) (zi c.FrmJ2k.cd_layers)
    (zi c.FrmJ2k.cd_mct) (zi c.FrmJ2k.cd_levels) (zi c.FrmJ2k.cd_xcb) (zi c.FrmJ2k.cd_ycb)
    (zi c.FrmJ2k.cd_style) (zi c.FrmJ2k.cd_transform)
    (string_of_zlist c.FrmJ2k.cd_precincts) (zi h.FrmJ2k.jk_sqcd) (L.length parts) psum maxisot
    (string01_of_bool h.FrmJ2k.jk_tlm) (zi h.FrmJ2k.jk_ncom) (zi h.FrmJ2k.jk_ncap)
    (zi h.FrmJ2k.jk_nmct) (zi h.FrmJ2k.jk_nrgn)

let register (reg : string -> (string list -> string) -> unit) : unit =
  (* frm_jpeg <hex> -> ok:<fields> | bad:<reason>@<offset> *)
  reg "frm_jpeg" (fun a -> match a with
    | [s] -> (match FrmJpeg.jpeg_walk (bytes_of_hex s) with
              | FrmBase.WOk h -> jpeg_reply h | FrmBase.WBad (r, o) -> bad r o)
    | _ -> "?");
  reg "frm_jls" (fun a -> match a with
    | [s] -> (match FrmJls.jls_walk (bytes_of_hex s) with
              | FrmBase.WOk h -> jls_reply h | FrmBase.WBad (r, o) -> bad r o)
    | _ -> "?");
  reg "frm_j2k" (fun a -> match a with
    | [s] -> (match FrmJ2k.j2k_walk (bytes_of_hex s) with
              | FrmBase.WOk h -> j2k_reply h | FrmBase.WBad (r, o) -> bad r o)
    | _ -> "?");
  (* ---- writer models ---- *)
  (* frm_write_segment <marker 0..65535> <hexdata> -> hex *)
  reg "frm_write_segment" (fun a -> match a with
    | [m; d] -> hex_of_bytes (FrmWriters.write_segment (z_of_int (int_of_string m)) (bytes_of_hex d))
    | _ -> "?");
  (* frm_huff <bits,n,bits,n,...> -> hex of WriteBits...;Flush *)
  reg "frm_huff" (fun a -> match a with
    | [ops] ->
      let rec pairs l = match l with x :: y :: r -> (x, y) :: pairs r | _ -> [] in
      hex_of_bytes (FrmWriters.huff_encode (pairs (zlist_of_string ops)))
    | _ -> "?");
  (* frm_bio <bit,bit,...> -> hex of writeBit...;flush *)
  reg "frm_bio" (fun a -> match a with
    | [bits] -> hex_of_bytes (FrmWriters.bio_encode (zlist_of_string bits))
    | _ -> "?");
  (* frm_sof <kind> <p> <h> <w> <nc> -> hex payload; kind baseline|seq12|lossless *)
  reg "frm_sof" (fun a -> match a with
    | [k; p; h; w; nc] ->
      let z s = z_of_int (int_of_string s) in
      hex_of_bytes (match k with
        | "baseline" -> FrmWriters.baseline_sof0 (z h) (z w) (z nc)
        | "seq12" -> FrmWriters.seq12_sof1 (z h) (z w)
        | _ -> FrmWriters.lossless_sof3 (z p) (z h) (z w) (z nc))
    | _ -> "?");
  (* ---- C17 guards ---- *)
  let z s = z_of_int (int_of_string s) in
  let eargs len w h c p x = { FrmValidate.a_len = z len; a_w = z w; a_h = z h; a_c = z c; a_p = z p; a_x = z x } in
  (* frm_accepts <enc> <len> <w> <h> <c> <p> <x> -> <accepts><representable> e.g. "10" *)
  reg "frm_accepts" (fun a -> match a with
    | [enc; len; w; h; c; p; x] ->
      let e = eargs len w h c p x in
      let (acc, rep) = (match enc with
        | "baseline" -> (FrmValidate.baseline_accepts e, FrmValidate.baseline_representable e)
        | "extended" -> (FrmValidate.extended_accepts e, FrmValidate.extended_representable e)
        | "lossless" -> (FrmValidate.lossless_accepts e, FrmValidate.lossless_representable e)
        | "sv1" -> (FrmValidate.sv1_accepts e, FrmValidate.sv1_representable e)
        | "jls" -> (FrmValidate.jls_accepts e, FrmValidate.jls_representable e)
        | "jls-near" -> (FrmValidate.jlsnear_accepts e, FrmValidate.jlsnear_representable e)
        | _ -> failwith "enc") in
      string01_of_bool acc ^ string01_of_bool rep
    | _ -> "?");
  (* frm_j2k_accepts len w h c p levels cbw cbh layers prog tw th quality lossless ncustomquant -> "ab" *)
  reg "frm_j2k_accepts" (fun a -> match a with
    | [len; w; h; c; p; lv; cbw; cbh; ly; pr; tw; th; q; ll; ncq] ->
      let k = { FrmValidate.k_len = z len; k_w = z w; k_h = z h; k_c = z c; k_p = z p; k_levels = z lv;
                k_cbw = z cbw; k_cbh = z cbh; k_layers = z ly; k_prog = z pr; k_tw = z tw; k_th = z th;
                k_quality = z q; k_lossless = (ll = "1"); k_ncq = z ncq } in
      string01_of_bool (FrmValidate.j2k_accepts k) ^ string01_of_bool (FrmValidate.j2k_representable k)
    | _ -> "?");
  let oc o = match o with Base.Ok _ -> "ok" | Base.Err -> "err" | Base.Panic -> "panic" | Base.OutOfFuel -> "fuel" in
  (* frm_rle_outcome len w h ba spp planar -> ok|err|panic followed by representable 0/1 *)
  reg "frm_rle_outcome" (fun a -> match a with
    | [len; w; h; ba; spp; pl] ->
      let r = { FrmValidate.r_len = z len; r_w = z w; r_h = z h; r_ba = z ba; r_spp = z spp; r_planar = z pl } in
      oc (FrmValidate.rle_outcome r) ^ ":" ^ string01_of_bool (FrmValidate.rle_representable r)
    | _ -> "?");
  (* frm_codec <ts> nil_old nil_new nil_fi w h spp bs ba planar nframes flen pkind param param_int *)
  reg "frm_codec" (fun a -> match a with
    | [ts; no; nn; nf; w; h; spp; bs; ba; pl; nfr; fl; pk; pv; pi] ->
      let c = { FrmValidate.c_nil_old = (no = "1"); c_nil_new = (nn = "1"); c_nil_fi = (nf = "1");
                c_w = z w; c_h = z h; c_spp = z spp; c_bs = z bs; c_ba = z ba; c_planar = z pl;
                c_nframes = z nfr; c_flen = z fl; c_pkind = z pk; c_param = z pv; c_param_int = (pi = "1") } in
      let b f = if f c then "ok" else "err" in
      (match ts with
       | ".50" -> b FrmValidate.codec_baseline_accepts
       | ".51" -> b FrmValidate.codec_extended_accepts
       | ".57" -> b FrmValidate.codec_lossless57_accepts
       | ".70" -> b FrmValidate.codec_sv1_accepts
       | ".80" -> b FrmValidate.codec_jls_accepts
       | ".81" -> b FrmValidate.codec_jlsnear_accepts
       | ".90" | ".91" | ".92" | ".93" -> b FrmValidate.codec_j2k_accepts
       | ".201" | ".202" | ".203" -> b FrmValidate.codec_htj2k_accepts
       | "RLE" -> oc (FrmValidate.codec_rle_outcome c)
       | _ -> "?")
    | _ -> "?");
  ()

let () = registrars := register :: !registrars
