(* JPEG Lossless (Process 14) and Selection-Value-1 codec: operations of area jpegll.

   Encodings: bytes are hex, "_" is the empty byte string; integers decimal.
   Outcome classes: ok:<payload> | err | panic | fuel.

   jll_encode <w> <h> <comps> <P> <pred> <hexpixels>      -> ok:<hexstream> | err
        model of lossless.Encode(pixels, w, h, comps, P, pred)   (pred 0 = automatic)
   sv1_encode <w> <h> <comps> <P> <hexpixels>             -> ok:<hexstream> | err
        model of lossless14sv1.Encode
   jll_decode <hexstream>   -> ok:<w>,<h>,<comps>,<P>:<hexpixels> | err | panic | fuel
        model of lossless.Decode
   sv1_decode <hexstream>   -> same, model of lossless14sv1.Decode
   jll_opt_table <freqs: 256 comma separated ints>        -> ok:<hex of 16 BITS bytes ++ HUFFVAL> | panic | fuel
        model of standard.BuildOptimalHuffmanTable (component tie)
   jll_table_ok <hex of 16 BITS bytes ++ HUFFVAL>         -> 1 | 0
        t81_table_ok: Kraft sum <= 1 over lengths 1..16, symbols distinct, count matches

   t81_decode <hexstream>   -> ok:<w>,<h>,<comps>,<P>:<hexpixels> | err
        the independent T.81 Annex H decoder (JllT81.t81_decode; None -> err)
   t81_encode <w> <h> <comps> <P> <pred> <tdlist> <tablespec> <dhtAfterSof01> <extraSegs01> <hexpixels>
                            -> ok:<hexstream> | err
        the independent T.81 Annex H encoder.
        tdlist     comma separated Td per component, each 0..3, e.g. 0,2,3
        tablespec  one entry per table id 0,1,2,3 separated by '/', (fewer entries = the rest
                   undefined); an entry is
                     -          table not defined (no DHT emitted for this id)
                     std        the T.81 K.3.1 luminance DC table extended to categories 0..16
                                (code lengths 2,3,3,3,3,3,4,5,...,14)
                     opt        per-image optimal table for the differences of the components
                                that use this id (model of BuildOptimalHuffmanTable applied to
                                the T.81 encoder's own category counts; unused id -> err)
                     x<hex>     explicit table: 16 BITS bytes followed by the HUFFVAL bytes
                                (the harness generates seeded random valid canonical tables and
                                passes them this way; validity is re-checked by t81_table_ok)
        dhtAfterSof01  0: DHT segments before SOF3, 1: after SOF3 (before SOS)
        extraSegs01    0: none; 1: an APP1 segment "verif", a COM segment and an APP14 segment are
                       inserted between SOI and the first of DHT/SOF3;
                       2: segments with EMPTY payloads (FF FE 00 02, FF E3 00 02), a one-byte APP1
                       and a long COM after SOI, and an empty COM, an empty APP7 and a one-byte
                       APP14 directly in front of SOS (after SOF3 and every DHT);
                       3: a single empty COM after SOI; 4: a single empty APP5 in front of SOS
        err: invalid parameters, a sample >= 2^P, an invalid table, two tables with the same id,
        or a needed category that has no code in the selected table.
*)
open BinNums
open Conv

let zi = int_of_z

let result_to_string (r : ((((coq_Z list * coq_Z) * coq_Z) * coq_Z) * coq_Z)) : string =
  let ((((px, w), h), c), p) = r in
  Printf.sprintf "ok:%d,%d,%d,%d:%s" (zi w) (zi h) (zi c) (zi p) (hex_of_bytes px)

let outcome_to_string (f : 'a -> string) (o : 'a Base.outcome) : string =
  match o with
  | Base.Ok a -> f a
  | Base.Err -> "err"
  | Base.Panic -> "panic"
  | Base.OutOfFuel -> "fuel"

let rec take n l = if n <= 0 then [] else match l with [] -> [] | x :: r -> x :: take (n - 1) r
let rec drop n l = if n <= 0 then l else match l with [] -> [] | _ :: r -> drop (n - 1) r

(* tablespec entry -> (BITS, HUFFVAL) option ; opt needs the frequencies *)
let parse_tablespec (spec : string) (freqs_for : int -> coq_Z list) : ((coq_Z * (coq_Z list * coq_Z list)) list) option =
  let entries = String.split_on_char '/' spec in
  let ok = ref true in
  let tabs = ref [] in
  L.iteri (fun id e ->
    if e = "-" || e = "" then ()
    else if e = "std" then tabs := (z_of_int id, (JllT81.t81_std_bits, JllT81.t81_std_vals)) :: !tabs
    else if e = "opt" then begin
      match JllHuff.build_optimal (freqs_for id) with
      | Base.Ok (b, v) -> tabs := (z_of_int id, (b, v)) :: !tabs
      | _ -> ok := false end
    else if String.length e > 1 && e.[0] = 'x' then begin
      let bytes = bytes_of_hex (String.sub e 1 (String.length e - 1)) in
      tabs := (z_of_int id, (take 16 bytes, drop 16 bytes)) :: !tabs end
    else ok := false) entries;
  if !ok then Some (L.rev !tabs) else None

let register (reg : string -> (string list -> string) -> unit) : unit =
  reg "jll_encode" (fun a -> match a with
    | [w; h; c; p; pred; px] ->
      outcome_to_string (fun s -> "ok:" ^ hex_of_bytes s)
        (JllModel.jll_encode (z_of_int (int_of_string w)) (z_of_int (int_of_string h))
           (z_of_int (int_of_string c)) (z_of_int (int_of_string p)) (z_of_int (int_of_string pred))
           (bytes_of_hex px))
    | _ -> "?");
  reg "sv1_encode" (fun a -> match a with
    | [w; h; c; p; px] ->
      outcome_to_string (fun s -> "ok:" ^ hex_of_bytes s)
        (JllModel.sv1_encode (z_of_int (int_of_string w)) (z_of_int (int_of_string h))
           (z_of_int (int_of_string c)) (z_of_int (int_of_string p)) (bytes_of_hex px))
    | _ -> "?");
  reg "jll_decode" (fun a -> match a with
    | [s] -> outcome_to_string result_to_string (JllModel.jll_decode (bytes_of_hex s))
    | _ -> "?");
  reg "sv1_decode" (fun a -> match a with
    | [s] -> outcome_to_string result_to_string (JllModel.sv1_decode (bytes_of_hex s))
    | _ -> "?");
  reg "jll_opt_table" (fun a -> match a with
    | [f] -> outcome_to_string (fun (b, v) -> "ok:" ^ hex_of_bytes (b @ v))
               (JllHuff.build_optimal (zlist_of_string f))
    | _ -> "?");
  reg "jll_table_ok" (fun a -> match a with
    | [t] -> let bytes = bytes_of_hex t in
      if JllT81.t81_table_ok (take 16 bytes) (drop 16 bytes) then "1" else "0"
    | _ -> "?");
  reg "t81_decode" (fun a -> match a with
    | [s] -> (match JllT81.t81_decode (bytes_of_hex s) with
              | Some r -> result_to_string r
              | None -> "err")
    | _ -> "?");
  reg "t81_encode" (fun a -> match a with
    | [w; h; c; p; pred; tds; spec; after; extra; px] ->
      let zw = z_of_int (int_of_string w) and zh = z_of_int (int_of_string h)
      and zc = z_of_int (int_of_string c) and zp = z_of_int (int_of_string p)
      and zpred = z_of_int (int_of_string pred) in
      let tdl = zlist_of_string tds in
      let pixels = bytes_of_hex px in
      let freqs_for id = JllT81.t81_table_freqs zw zh zc zp zpred tdl (z_of_int id) pixels in
      (match parse_tablespec spec freqs_for with
       | None -> "err"
       | Some tabs ->
         let extras, mids = match extra with
           | "1" -> JllT81.t81_demo_extras, []
           | "2" -> JllT81.t81_empty_extras, JllT81.t81_empty_mids
           | "3" -> [(z_of_int 254, [])], []
           | "4" -> [], [(z_of_int 229, [])]
           | _ -> [], [] in
         (match JllT81.t81_encode_x zpred tdl tabs (after = "1") extras mids zw zh zc zp pixels with
          | Some s -> "ok:" ^ hex_of_bytes s
          | None -> "err"))
    | _ -> "?");
  ()

let () = registrars := register :: !registrars
