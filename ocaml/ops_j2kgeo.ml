(* JPEG 2000 arithmetic / geometry / layer bookkeeping (area j2kgeo; properties C04, C19, C05).
   Encodings: ints "1,2,-3" ("_" empty), bytes hex ("_" empty), lists of lists joined by ";",
   bools 0/1, outcomes ok:<payload> / err / panic. *)
open BinNums
open Conv

let zi s = z_of_int (int_of_string s)
let iz = int_of_z
let b01 = bool_of_string01
let nat_z s = nat_of_int (int_of_string s)

let split_nonempty c s = if s = "" || s = "_" then [] else String.split_on_char c s

let rect_str ((((x0, y0), x1), y1) : GeoModel.rect) : string =
  Printf.sprintf "%d,%d,%d,%d" (iz x0) (iz y0) (iz x1) (iz y1)

let band_str (b : GeoModel.band) : string =
  Printf.sprintf "%d,%d,%d,%d,%d" (iz b.GeoModel.b_id) (iz b.GeoModel.b_w) (iz b.GeoModel.b_h)
    (iz b.GeoModel.b_ox) (iz b.GeoModel.b_oy)

let bands_str (l : GeoModel.band list) : string =
  if l = [] then "_" else String.concat ";" (L.map band_str l)

let block_str (c : GeoModel.cblock) : string =
  Printf.sprintf "%d,%d,%d,%d,%d,%d,%d:%s" (iz c.GeoModel.cb_gx0) (iz c.GeoModel.cb_gy0)
    (iz c.GeoModel.cb_w) (iz c.GeoModel.cb_h) (iz c.GeoModel.cb_cbx) (iz c.GeoModel.cb_cby)
    (iz c.GeoModel.cb_band) (string_of_zlist c.GeoModel.cb_data)

let blocks_str (l : GeoModel.cblock list) : string =
  if l = [] then "_" else String.concat ";" (L.map block_str l)

let outcome_ints (o : coq_Z list Base.outcome) : string =
  match o with
  | Base.Ok l -> "ok:" ^ string_of_zlist l
  | Base.Err -> "err" | Base.Panic -> "panic" | Base.OutOfFuel -> "fuel"

(* passes "r0,a0,r1,a1,..." -> (Rate, ActualBytes) list *)
let passes_of_string (s : string) : (coq_Z * coq_Z) list =
  let rec pair l = match l with a :: b :: r -> (a, b) :: pair r | _ -> [] in
  pair (zlist_of_string s)

let layer_data_str (ld : coq_Z list list) : string =
  if ld = [] then "-" else String.concat ";" (L.map hex_of_bytes ld)

let fclass_of_string s = match s with
  | "neg" -> GeoLayers.FNeg | "zero" -> GeoLayers.FZero | "pos" -> GeoLayers.FPos | _ -> GeoLayers.FNaN
let string_of_fclass c = match c with
  | GeoLayers.FNeg -> "neg" | GeoLayers.FZero -> "zero" | GeoLayers.FPos -> "pos" | GeoLayers.FNaN -> "nan"

let bools_str (l : bool list) : string =
  if l = [] then "_" else String.concat "," (L.map string01_of_bool l)

let register (reg : string -> (string list -> string) -> unit) : unit =
  (* ---------------- tiles ---------------- *)
  (* geo_tiles W H tw th -> ntx,nty|enc rects|layout rects (idx -1, 0..n-1, n)|decoder rects *)
  reg "geo_tiles" (fun a -> match a with
    | [w; h; tw; th] ->
      let w = zi w and h = zi h and tw = zi tw and th = zi th in
      let ntx = GeoModel.enc_num_tiles w tw and nty = GeoModel.enc_num_tiles h th in
      let n = iz ntx * iz nty in
      let idxs = L.init (max n 0) (fun i -> z_of_int i) in
      let tl = GeoModel.new_tile_layout w h Z0 Z0 tw th Z0 Z0 in
      let enc = L.map (fun i -> rect_str (GeoModel.enc_tile_bounds w h i tw th ntx)) idxs in
      let lay = L.map (fun i -> rect_str (GeoModel.layout_tile_bounds tl i))
          (z_of_int (-1) :: idxs @ [z_of_int n]) in
      let dec = L.map (fun i -> rect_str (GeoModel.dec_tile_bounds i w h Z0 Z0 tw th Z0 Z0)) idxs in
      Printf.sprintf "%d,%d|%s|%d:%s|%s" (iz ntx) (iz nty) (String.concat ";" enc)
        (iz (GeoModel.tile_count tl)) (String.concat ";" lay) (String.concat ";" dec)
    | _ -> "?");
  (* geo_layout Xsiz Ysiz XOsiz YOsiz XTsiz YTsiz XTOsiz YTOsiz -> count:rects(idx -1..count) *)
  reg "geo_layout" (fun a -> match a with
    | [xs; ys; xo; yo; xt; yt; xto; yto] ->
      let tl = GeoModel.new_tile_layout (zi xs) (zi ys) (zi xo) (zi yo) (zi xt) (zi yt) (zi xto) (zi yto) in
      let n = iz (GeoModel.tile_count tl) in
      let idxs = L.init (max (n + 2) 1) (fun i -> z_of_int (i - 1)) in
      Printf.sprintf "%d,%d,%d,%d:%s" (iz tl.GeoModel.tl_imageWidth) (iz tl.GeoModel.tl_imageHeight)
        (iz tl.GeoModel.tl_numTilesX) (iz tl.GeoModel.tl_numTilesY)
        (String.concat ";" (L.map (fun i -> rect_str (GeoModel.layout_tile_bounds tl i)) idxs))
    | _ -> "?");
  (* geo_tile_rt W H tw th data -> tiles "d;d;..." | outcome of reassembly *)
  reg "geo_tile_rt" (fun a -> match a with
    | [w; h; tw; th; d] ->
      let w = zi w and h = zi h and tw = zi tw and th = zi th and img = zlist_of_string d in
      let tiles = L.map (GeoModel.extract_tile img w) (GeoModel.enc_tiles w h tw th) in
      Printf.sprintf "%s|%s" (String.concat ";" (L.map string_of_zlist tiles))
        (outcome_ints (GeoModel.tile_roundtrip img w h tw th))
    | _ -> "?");
  (* geo_assemble_tile W H tw th idx acc tile -> outcome *)
  reg "geo_assemble_tile" (fun a -> match a with
    | [w; h; tw; th; idx; acc; tile] ->
      let tl = GeoModel.new_tile_layout (zi w) (zi h) Z0 Z0 (zi tw) (zi th) Z0 Z0 in
      outcome_ints (GeoModel.assemble_tile tl (zlist_of_string acc) (zi idx) (zlist_of_string tile))
    | _ -> "?");
  (* ---------------- bands ---------------- *)
  (* geo_parity v -> split(v,even),split(v,odd),next(v),even01 *)
  reg "geo_parity" (fun a -> match a with
    | [v] -> let v = zi v in
      Printf.sprintf "%d,%d,%d,%s" (iz (GeoModel.split_len v true)) (iz (GeoModel.split_len v false))
        (iz (GeoModel.next_coord_z v)) (string01_of_bool (GeoModel.is_even_z v))
    | _ -> "?");
  (* geo_bands w h x0 y0 levels maxres -> per res 0..maxres, joined by '#':
       encW,encH/enc bands/decW,decH,decX0,decY0/dec bands *)
  reg "geo_bands" (fun a -> match a with
    | [w; h; x0; y0; lv; mr] ->
      let w = zi w and h = zi h and x0 = zi x0 and y0 = zi y0 and lv = zi lv in
      String.concat "#" (L.init (int_of_string mr + 1) (fun r ->
        let r = z_of_int r in
        let (ew, eh) = GeoModel.enc_res_dims w h x0 y0 lv r in
        let ((((dw, dh), dx), dy), db) = GeoModel.dec_band_infos w h x0 y0 lv r in
        Printf.sprintf "%d,%d/%s/%d,%d,%d,%d/%s" (iz ew) (iz eh)
          (bands_str (GeoModel.enc_band_infos w h x0 y0 lv r)) (iz dw) (iz dh) (iz dx) (iz dy) (bands_str db)))
    | _ -> "?");
  (* geo_subbands w h x0 y0 levels res data -> "b,w,h,ox,oy:data;..." *)
  reg "geo_subbands" (fun a -> match a with
    | [w; h; x0; y0; lv; r; d] ->
      let sbs = GeoModel.enc_subbands (zlist_of_string d) (zi w) (zi h) (zi x0) (zi y0) (zi lv) (zi r) in
      String.concat ";" (L.map (fun (b, bd) -> band_str b ^ ":" ^ string_of_zlist bd) sbs)
    | _ -> "?");
  (* ---------------- code-blocks ---------------- *)
  (* geo_partition bid bw bh box boy cbw cbh data -> blocks *)
  reg "geo_partition" (fun a -> match a with
    | [bid; bw; bh; box; boy; cbw; cbh; d] ->
      let b = { GeoModel.b_id = zi bid; b_w = zi bw; b_h = zi bh; b_ox = zi box; b_oy = zi boy } in
      blocks_str (GeoModel.enc_partition (b, zlist_of_string d) (zi cbw) (zi cbh))
    | _ -> "?");
  (* geo_blocks w h x0 y0 levels cbw cbh data -> encoder blocks | decoder grid | reassembled *)
  reg "geo_blocks" (fun a -> match a with
    | [w; h; x0; y0; lv; cbw; cbh; d] ->
      let w = zi w and h = zi h and x0 = zi x0 and y0 = zi y0 and lv = zi lv in
      let cbw = zi cbw and cbh = zi cbh in
      let bs = GeoModel.enc_all_blocks (zlist_of_string d) w h x0 y0 lv cbw cbh in
      let grid = GeoModel.dec_grid w h x0 y0 lv cbw cbh in
      let gs = if grid = [] then "_" else String.concat ";" (L.map (fun g ->
        Printf.sprintf "%d,%d,%d,%d,%d,%d" (iz g.GeoModel.db_idx) (iz g.GeoModel.db_x0) (iz g.GeoModel.db_y0)
          (iz g.GeoModel.db_x1) (iz g.GeoModel.db_y1) (iz g.GeoModel.db_band)) grid) in
      Printf.sprintf "%s|%s|%s" (blocks_str bs) gs
        (string_of_zlist (GeoModel.dec_assemble w h (GeoModel.blocks_for_assembly bs)))
    | _ -> "?");
  (* geo_assemble w h blocks("x0,y0,x1,y1:coeffs;...") -> ints *)
  reg "geo_assemble" (fun a -> match a with
    | [w; h; bl] ->
      let blocks = L.map (fun s ->
        match String.split_on_char ':' s with
        | [r; c] -> (match zlist_of_string r with
            | [x0; y0; x1; y1] -> ((((x0, y0), x1), y1), zlist_of_string c)
            | _ -> failwith "rect")
        | _ -> failwith "block") (split_nonempty ';' bl) in
      string_of_zlist (GeoModel.dec_assemble (zi w) (zi h) blocks)
    | _ -> "?");
  (* ---------------- samples ---------------- *)
  (* geo_convert numPixels comps P signed hexbytes -> err | comp;comp;... (after level shift) *)
  reg "geo_convert" (fun a -> match a with
    | [n; c; p; s; hx] ->
      (match GeoModel.convert_pixel_data (zi n) (zi c) (zi p) (b01 s) (bytes_of_hex hx) with
       | Base.Ok d -> "ok:" ^ String.concat ";" (L.map string_of_zlist (GeoModel.level_shift_all (zi p) (b01 s) d))
       | Base.Err -> "err" | Base.Panic -> "panic" | Base.OutOfFuel -> "fuel")
    | _ -> "?");
  (* geo_getpixels numPixels comps P signed comp;comp;... -> hex | panic (inverse shift first) *)
  reg "geo_getpixels" (fun a -> match a with
    | [n; c; p; s; d] ->
      let data = L.map zlist_of_string (String.split_on_char ';' d) in
      if not (GeoModel.pixel_data_in_range (zi n) (zi c) data) then "panic" else
      hex_of_bytes (GeoModel.get_pixel_data (zi n) (zi c) (zi p) (b01 s)
                      (GeoModel.level_unshift_all (zi p) (b01 s) data))
    | _ -> "?");
  (* geo_pack P v0,v1,... -> hex of the property's container for each value *)
  reg "geo_pack" (fun a -> match a with
    | [p; vs] -> hex_of_bytes (L.concat (L.map (GeoModel.pack_sample (zi p)) (zlist_of_string vs)))
    | _ -> "?");
  (* ---------------- layers ---------------- *)
  (* geo_finalize rd01 passes cd(hex|nil) numLayers row append01 existingPassLengths
       -> panic | none | lp|ld|pl|contrib per layer 0..numLayers|passlens per layer|prev,total per layer *)
  reg "geo_finalize" (fun a -> match a with
    | [rd; ps; cd; nl; row; ap; epl] ->
      let passes = passes_of_string ps in
      let cdo = if cd = "nil" then None else Some (bytes_of_hex cd) in
      let nlz = zi nl in
      let f = if b01 rd then GeoLayers.finalize_rd_block else GeoLayers.finalize_block in
      (match f passes cdo nlz (zlist_of_string row) (b01 ap) with
       | Base.Panic -> "panic" | Base.Err -> "err" | Base.OutOfFuel -> "fuel"
       | Base.Ok None -> "none"
       | Base.Ok (Some (lp, ld)) ->
         let pl = GeoLayers.init_pass_lengths (zlist_of_string epl) passes in
         let data = match cdo with Some d -> d | None -> [] in
         let npt = z_of_int (L.length passes) in
         let layers = L.init (int_of_string nl + 1) (fun i -> z_of_int i) in
         let contrib = L.map (fun l ->
           let ((incl, np), d) = GeoLayers.layer_contribution (Some ld) lp data npt l in
           Printf.sprintf "%s,%d,%s" (string01_of_bool incl) (iz np) (hex_of_bytes d)) layers in
         let plens = L.map (fun l ->
           match GeoLayers.layer_pass_lengths false lp pl l with
           | Base.Ok None -> "nil" | Base.Ok (Some x) -> string_of_zlist x | _ -> "panic") layers in
         let pt = L.map (fun l ->
           let ((_, np), _) = GeoLayers.layer_contribution (Some ld) lp data npt l in
           let (p, t) = GeoLayers.prev_and_total_passes false lp npt l np in
           Printf.sprintf "%d,%d" (iz p) (iz t)) layers in
         Printf.sprintf "%s|%s|%s|%s|%s|%s|%s" (string_of_zlist lp) (layer_data_str ld) (string_of_zlist pl)
           (String.concat ";" contrib) (String.concat ";" plens) (String.concat ";" pt)
           (string_of_zlist (GeoLayers.build_pass_lengths Z0 pl)))
    | _ -> "?");
  (* geo_contrib_nil data(hex) numPassesTotal layer newPasses -> incl,np,hex|prev,total
     (LayerData == nil, LayerPasses == nil: single-layer path) *)
  reg "geo_contrib_nil" (fun a -> match a with
    | [d; npt; l; np] ->
      let ((incl, n), dd) = GeoLayers.layer_contribution None [] (bytes_of_hex d) (zi npt) (zi l) in
      let (p, t) = GeoLayers.prev_and_total_passes true [] (zi npt) (zi l) (zi np) in
      Printf.sprintf "%s,%d,%s|%d,%d" (string01_of_bool incl) (iz n) (hex_of_bytes dd) (iz p) (iz t)
    | _ -> "?");
  (* geo_init_rd numLayers appendLL lossless -> nl,append01 *)
  reg "geo_init_rd" (fun a -> match a with
    | [nl; ap; ll] ->
      let (n, b) = GeoLayers.init_rd_layer_config (zi nl) (b01 ap) (b01 ll) in
      Printf.sprintf "%d,%s" (iz n) (string01_of_bool b)
    | _ -> "?");
  (* ---------------- parameters ---------------- *)
  (* geo_params numLevels allowMCT rate levels prog numLayers trclass usePCRD appendLL
       -> validated | configured *)
  reg "geo_params" (fun a -> match a with
    | [nlv; mct; rate; levels; prog; nly; tr; pcrd; ap] ->
      let p = { GeoLayers.lp_NumLevels = zi nlv; lp_AllowMCT = b01 mct; lp_Rate = zi rate;
                lp_RateLevels = zlist_of_string levels; lp_Prog = zi prog; lp_NumLayers = zi nly;
                lp_TargetRatio = fclass_of_string tr; lp_UsePCRDOpt = b01 pcrd; lp_AppendLL = b01 ap } in
      let v = GeoLayers.validate p in
      let e = GeoLayers.configure v in
      Printf.sprintf "%d,%s,%d,%s,%d,%d,%s,%s,%s|%d,%d,%d,%s,%s,%s,%s,%s,%s,%s"
        (iz v.GeoLayers.lp_NumLevels) (string01_of_bool v.GeoLayers.lp_AllowMCT) (iz v.GeoLayers.lp_Rate)
        (string_of_zlist v.GeoLayers.lp_RateLevels) (iz v.GeoLayers.lp_Prog) (iz v.GeoLayers.lp_NumLayers)
        (string_of_fclass v.GeoLayers.lp_TargetRatio) (string01_of_bool v.GeoLayers.lp_UsePCRDOpt)
        (string01_of_bool v.GeoLayers.lp_AppendLL)
        (iz e.GeoLayers.ep_NumLevels) (iz e.GeoLayers.ep_Prog) (iz e.GeoLayers.ep_NumLayers)
        (string_of_fclass e.GeoLayers.ep_TargetRatio) (string01_of_bool e.GeoLayers.ep_UsePCRDOpt)
        (string01_of_bool e.GeoLayers.ep_EnableMCT) (string01_of_bool e.GeoLayers.ep_AppendLL)
        (string01_of_bool e.GeoLayers.ep_Lossless) (bools_str e.GeoLayers.ep_LayerRates)
        (string01_of_bool (GeoLayers.uses_rate_control e))
    | _ -> "?");
  (* geo_layers_from rate levels -> n ; geo_layer_rates rate levels append01 -> bools *)
  reg "geo_layers_from" (fun a -> match a with
    | [r; l] -> string_of_int (iz (GeoLayers.layers_from_rate_levels (zi r) (zlist_of_string l)))
    | _ -> "?");
  reg "geo_layer_rates" (fun a -> match a with
    | [r; l; ap] -> bools_str (GeoLayers.open_jpeg_layer_rates (zi r) (zlist_of_string l) (b01 ap))
    | _ -> "?");
  ()

let () = registrars := register :: !registrars
