(* placeholder *)
open Conv
let register (reg : string -> (string list -> string) -> unit) : unit = ()
let () = registrars := register :: !registrars
