(* JPEG 2000 tier-2 (area t2; properties C04, C08): bit I/O, tag trees, packet-header codes,
   packet headers, packets of a tile, gatherCBData.
   Encodings: ints "1,2,-3" ("_" empty), bytes hex ("_" empty), bools 0/1, bit strings "0110"
   ("_" empty), outcomes ok:<payload> / err / panic / fuel.  Nesting separators are given per op. *)
open BinNums
open Conv

let zi s = z_of_int (int_of_string s)
let iz = int_of_z
let b01 = bool_of_string01
let s01 = string01_of_bool

let split c s = if s = "" || s = "_" then [] else String.split_on_char c s
let join sep empty l = if l = [] then empty else String.concat sep l

let cls (o : 'a Base.outcome) (f : 'a -> string) : string =
  match o with
  | Base.Ok x -> "ok:" ^ f x
  | Base.Err -> "err" | Base.Panic -> "panic" | Base.OutOfFuel -> "fuel"

(* bit strings *)
let bits_of_string (s : string) : coq_Z list =
  if s = "_" || s = "" then [] else
  L.init (String.length s) (fun i -> if s.[i] = '1' then ztab.(1) else Z0)
let string_of_bits (l : coq_Z list) : string =
  if l = [] then "_" else begin
    let b = Buffer.create 256 in
    L.iter (fun x -> Buffer.add_char b (if iz x = 0 then '0' else '1')) l;
    Buffer.contents b end

let rec pairs l = match l with a :: b :: r -> (a, b) :: pairs r | _ -> []
let rec triples l = match l with a :: b :: c :: r -> ((a, b), c) :: triples r | _ -> []

(* "x,y,t;x,y,t" *)
let queries_of_string s : ((coq_Z * coq_Z) * coq_Z) list =
  L.map (fun q -> match zlist_of_string q with
    | [x; y; t] -> ((x, y), t) | _ -> failwith "query") (split ';' s)

(* "0,x,y,v;1,x,y,thr;2"  (0 = SetValue, 1 = Encode, 2 = ResetEncoding) *)
let ttops_of_string s : T2TagTree.tt_op list =
  L.map (fun q -> match L.map iz (zlist_of_string q) with
    | [0; x; y; v] -> T2TagTree.TSet (z_of_int x, z_of_int y, z_of_int v)
    | [1; x; y; t] -> T2TagTree.TEnc (z_of_int x, z_of_int y, z_of_int t)
    | [2] -> T2TagTree.TReset
    | _ -> failwith "ttop") (split ';' s)

let leaves (t : T2TagTree.ttree) : string =
  let w = iz t.T2TagTree.tt_w and h = iz t.T2TagTree.tt_h in
  string_of_zlist (L.concat (L.init h (fun y -> L.init w (fun x ->
    T2TagTree.tt_getvalue t (z_of_int x) (z_of_int y)))))

let bools_of_string s = L.map (fun x -> iz x <> 0) (zlist_of_string s)

(* ---------- encoder-side blocks / bands ----------
   band  = "bandid,w,h/blk/blk/..."           (blocks separated by '/')
   blk   = "cbx,cby,zbp,termall,included,nlb,npt:lp:pl:passes:data:ld"
           lp, pl ints; passes flat ints "len,actual,term,len,actual,term,..."; data hex;
           ld = "nil" (LayerData == nil) | "e" (non-nil, empty) | hex;hex;... ("_" = empty entry)
   bands = band|band|...                      ("_" = no band) *)
let eblock_of_string (s : string) : T2Header.eblock =
  match String.split_on_char ':' s with
  | [hd; lp; pl; ps; data; ld] ->
    (match L.map iz (zlist_of_string hd) with
     | [cbx; cby; zbp; ta; inc; nlb; npt] ->
       { T2Header.eb_cbx = z_of_int cbx; eb_cby = z_of_int cby; eb_zbp = z_of_int zbp;
         eb_lp = zlist_of_string lp;
         eb_ld = (if ld = "nil" then None else if ld = "e" then Some []
                  else Some (L.map bytes_of_hex (String.split_on_char ';' ld)));
         eb_data = bytes_of_hex data; eb_npt = z_of_int npt; eb_pl = zlist_of_string pl;
         eb_passes = L.map (fun ((l, a), t) -> ((l, a), iz t <> 0)) (triples (zlist_of_string ps));
         eb_termall = (ta <> 0); eb_included = (inc <> 0); eb_nlb = z_of_int nlb }
     | _ -> failwith "eblock head")
  | _ -> failwith "eblock"

let eband_of_string (s : string) : T2Header.eband =
  match String.split_on_char '/' s with
  | hd :: blks ->
    (match zlist_of_string hd with
     | [b; w; h] -> { T2Header.ebn_band = b; ebn_w = w; ebn_h = h;
                      ebn_blocks = L.map eblock_of_string blks; ebn_trees = None }
     | _ -> failwith "eband head")
  | [] -> failwith "eband"

let ebands_of_string s = L.map eband_of_string (split '|' s)

(* per CodeBlockIncl "included,numPasses,dataLen" joined by ';' *)
let eincls_str (l : T2Header.eincl list) : string =
  join ";" "_" (L.map (fun i -> Printf.sprintf "%s,%d,%d" (s01 i.T2Header.ei_included)
                          (iz i.T2Header.ei_np) (iz i.T2Header.ei_len)) l)

(* per band (joined by '/') per block in stored order (joined by ';') "cbx,cby,included,nlb" *)
let ebands_state_str (l : T2Header.eband list) : string =
  join "/" "_" (L.map (fun p -> join ";" "_" (L.map (fun b ->
    Printf.sprintf "%d,%d,%s,%d" (iz b.T2Header.eb_cbx) (iz b.T2Header.eb_cby)
      (s01 b.T2Header.eb_included) (iz b.T2Header.eb_nlb)) p.T2Header.ebn_blocks)) l)

(* ---------- decoder-side bands ----------
   dband  = "w,h:positions"      positions flat ints "x,y,x,y" or "_" (row-major grid)
   dbands = dband|dband|...
   preset (one per band, joined by '|'): "-" (nothing) or "S=states" and/or "T=tw,th,hexI,qI,hexZ,qZ"
       joined by '&'; states = "inc,first,zbp,passes,nlb;..." ("_" = empty non-nil list);
       qI / qZ = "x.y.t+x.y.t" ("_" none): trees tw x th pre-advanced by Decode calls over the bytes *)
let dblock_of_string s : T2Header.dblock =
  match L.map iz (zlist_of_string s) with
  | [inc; fl; zbp; np; nlb] ->
    { T2Header.db_included = (inc <> 0); db_first = z_of_int fl; db_zbp = z_of_int zbp;
      db_passes = z_of_int np; db_nlb = z_of_int nlb }
  | _ -> failwith "dblock"

let dotq s : ((coq_Z * coq_Z) * coq_Z) list =
  L.map (fun q -> match String.split_on_char '.' q with
    | [x; y; t] -> ((zi x, zi y), zi t) | _ -> failwith "dotq") (split '+' s)

exception Preset_failed

let adv_tree w h hx qs : T2TagTree.ttree =
  match T2TagTree.tt_run_dec (T2TagTree.tt_new w h) (T2Bio.rd_init (bytes_of_hex hx)) (dotq qs) with
  | Base.Ok ((_, t), _) -> t
  | _ -> raise Preset_failed

let dband_of_string (s : string) (preset : string) : T2Header.dband =
  match String.split_on_char ':' s with
  | [wh; pos] ->
    (match zlist_of_string wh with
     | [w; h] ->
       let b = ref { T2Header.dbn_w = w; dbn_h = h; dbn_pos = pairs (zlist_of_string pos);
                     dbn_incl = None; dbn_zbp = None; dbn_states = None } in
       if preset <> "-" then
         L.iter (fun p ->
           let n = String.length p in
           if n >= 2 && p.[0] = 'S' then
             b := { !b with T2Header.dbn_states = Some (L.map dblock_of_string (split ';' (String.sub p 2 (n - 2)))) }
           else if n >= 2 && p.[0] = 'T' then
             (match String.split_on_char ',' (String.sub p 2 (n - 2)) with
              | [tw; th; hi; qi; hz; qz] ->
                b := { !b with T2Header.dbn_incl = Some (adv_tree (zi tw) (zi th) hi qi);
                               dbn_zbp = Some (adv_tree (zi tw) (zi th) hz qz) }
              | _ -> failwith "preset T")
           else failwith "preset") (String.split_on_char '&' preset);
       !b
     | _ -> failwith "dband dims")
  | _ -> failwith "dband"

(* CodeBlockIncl of the parser: "included,first,np,len,zbp,termall:passLens" *)
let dincl_str (i : T2Header.dincl) : string =
  Printf.sprintf "%s,%s,%d,%d,%d,%s:%s" (s01 i.T2Header.di_included) (s01 i.T2Header.di_first)
    (iz i.T2Header.di_np) (iz i.T2Header.di_len) (iz i.T2Header.di_zbp) (s01 i.T2Header.di_termall)
    (string_of_zlist i.T2Header.di_pl)

(* per band joined by '/': "nil" or blocks "inc,first,zbp,passes,nlb" joined by ';' *)
let dstates_str (l : T2Header.dband list) : string =
  join "/" "_" (L.map (fun b -> match b.T2Header.dbn_states with
    | None -> "nil"
    | Some sts -> join ";" "_" (L.map (fun s ->
        Printf.sprintf "%s,%d,%d,%d,%d" (s01 s.T2Header.db_included) (iz s.T2Header.db_first)
          (iz s.T2Header.db_zbp) (iz s.T2Header.db_passes) (iz s.T2Header.db_nlb)) sts)) l)

(* ---------- geometry closures ---------- *)
let nth_or l i d = match L.nth_opt l i with Some x -> x | None -> d

(* bounds "x0,y0,x1,y1;..." per component; sampling "dx,dy;..." per component;
   precinct "pw,ph;..." per resolution *)
let pgeom_of (bounds : string) (sampling : string) (prec : string) : T2Packets.pgeom =
  let bl = L.map (fun s -> match zlist_of_string s with
      | [a; b; c; d] -> (((a, b), c), d) | _ -> failwith "bounds") (split ';' bounds) in
  let sl = L.map (fun s -> match zlist_of_string s with
      | [a; b] -> (a, b) | _ -> failwith "sampling") (split ';' sampling) in
  let pl = L.map (fun s -> match zlist_of_string s with
      | [a; b] -> (a, b) | _ -> failwith "precinct") (split ';' prec) in
  { T2Packets.pg_bounds = (fun c -> let i = iz c in if i < 0 then (((Z0, Z0), Z0), Z0) else nth_or bl i (((Z0, Z0), Z0), Z0));
    pg_sampling = (fun c -> let i = iz c in if i < 0 then (ztab.(1), ztab.(1)) else nth_or sl i (ztab.(1), ztab.(1)));
    pg_precinct = (fun r -> let i = iz r in let d = z_of_int 32768 in
                    if i < 0 then (d, d) else nth_or pl i (d, d)) }

let item_str ((((l, r), c), p) : T2Packets.seq_item) : string =
  Printf.sprintf "%d,%d,%d,%d" (iz l) (iz r) (iz c) (iz p)

let register (reg : string -> (string list -> string) -> unit) : unit =
  (* ---------------- bit I/O ---------------- *)
  (* t2_bio_write "v,n,v,n,..." -> hex          (writeBits(v, n) ...; flush) *)
  reg "t2_bio_write" (fun a -> match a with
    | [vs] -> hex_of_bytes (T2Bio.bio_encode_vals (pairs (zlist_of_string vs)))
    | _ -> "?");
  (* t2_bio_read hex ns -> ok:vals|bytesRead / err       (readBits(n) ...; alignToByte) *)
  reg "t2_bio_read" (fun a -> match a with
    | [hx; ns] -> cls (T2Bio.rd_session (bytes_of_hex hx) (zlist_of_string ns))
                    (fun (vals, pos) -> Printf.sprintf "%s|%d" (string_of_zlist vals) (iz pos))
    | _ -> "?");
  (* ---------------- tag trees ---------------- *)
  (* t2_tt_enc w h ops -> ok:bits|leaf values row-major / err / panic *)
  reg "t2_tt_enc" (fun a -> match a with
    | [w; h; ops] ->
      cls (T2TagTree.tt_run_enc (T2TagTree.tt_new (zi w) (zi h)) (ttops_of_string ops))
        (fun (bits, t) -> Printf.sprintf "%s|%s" (string_of_bits bits) (leaves t))
    | _ -> "?");
  (* t2_tt_dec w h bits queries -> ok:values|leaf values / err / panic / fuel
     (reader over bio_encode bits ++ 00 00 00 00) *)
  reg "t2_tt_dec" (fun a -> match a with
    | [w; h; bits; qs] ->
      let z = Z0 in
      let bytes = FrmWriters.bio_encode (bits_of_string bits) @ [z; z; z; z] in
      cls (T2TagTree.tt_run_dec (T2TagTree.tt_new (zi w) (zi h)) (T2Bio.rd_init bytes) (queries_of_string qs))
        (fun ((vals, t), _) -> Printf.sprintf "%s|%s" (string_of_zlist vals) (leaves t))
    | _ -> "?");
  (* t2_tt_decb w h hex queries -> ok:values / err / panic / fuel    (reader over the bytes) *)
  reg "t2_tt_decb" (fun a -> match a with
    | [w; h; hx; qs] ->
      cls (T2TagTree.tt_run_dec (T2TagTree.tt_new (zi w) (zi h)) (T2Bio.rd_init (bytes_of_hex hx)) (queries_of_string qs))
        (fun ((vals, _), _) -> string_of_zlist vals)
    | _ -> "?");
  (* ---------------- codes ---------------- *)
  (* t2_np_enc n -> ok:hex / err ; t2_np_dec hex -> ok:n,bytesRead / err *)
  reg "t2_np_enc" (fun a -> match a with
    | [n] -> cls (T2Header.enc_numpasses (zi n)) (fun bits -> hex_of_bytes (FrmWriters.bio_encode bits))
    | _ -> "?");
  reg "t2_np_dec" (fun a -> match a with
    | [hx] -> cls (T2Header.dec_numpasses (T2Bio.rd_init (bytes_of_hex hx)))
                (fun (n, r) -> Printf.sprintf "%d,%d" (iz n) (iz r.T2Bio.rd_pos))
    | _ -> "?");
  (* t2_comma_enc n -> hex ; t2_comma_dec hex -> ok:n,bytesRead / err / fuel *)
  reg "t2_comma_enc" (fun a -> match a with
    | [n] -> hex_of_bytes (FrmWriters.bio_encode (T2Header.enc_comma (zi n)))
    | _ -> "?");
  reg "t2_comma_dec" (fun a -> match a with
    | [hx] -> cls (T2Header.dec_comma (T2Bio.rd_init (bytes_of_hex hx)))
                (fun (n, r) -> Printf.sprintf "%d,%d" (iz n) (iz r.T2Bio.rd_pos))
    | _ -> "?");
  (* t2_len_enc nlb dataLen prev np termAll passLens(nil|ints|_) terms(bools|_) -> ok:hex|newNlb / panic *)
  reg "t2_len_enc" (fun a -> match a with
    | [nlb; dl; prev; np; ta; pl; terms] ->
      let plo = if pl = "nil" then None else Some (zlist_of_string pl) in
      cls (T2Header.enc_lengths (zi nlb) (zi dl) (zi prev) (zi np) (b01 ta) plo (bools_of_string terms))
        (fun (bits, n) -> Printf.sprintf "%s|%d" (hex_of_bytes (FrmWriters.bio_encode bits)) (iz n))
    | _ -> "?");
  (* t2_len_dec hex np nlb termAll -> ok:total|passLens|newNlb|bytesRead / err / fuel *)
  reg "t2_len_dec" (fun a -> match a with
    | [hx; np; nlb; ta] ->
      cls (T2Header.dec_lengths (T2Bio.rd_init (bytes_of_hex hx)) (zi np) (zi nlb) (b01 ta))
        (fun (((tot, pls), n), r) -> Printf.sprintf "%d|%s|%d|%d" (iz tot) (string_of_zlist pls) (iz n) (iz r.T2Bio.rd_pos))
    | _ -> "?");
  (* ---------------- packet headers ---------------- *)
  (* t2_hdr_enc layers bands -> per layer (joined '#'):
       ok:hex|incls|state   or err / panic / fuel (then the run stops)
     the eband list is threaded through the given layer sequence *)
  reg "t2_hdr_enc" (fun a -> match a with
    | [layers; bands] ->
      let rec go bs ls = match ls with
        | [] -> []
        | l :: r ->
          (match T2Header.enc_header bs l with
           | Base.Ok ((hdr, incs), bs') ->
             Printf.sprintf "ok:%s|%s|%s" (hex_of_bytes hdr) (eincls_str incs) (ebands_state_str bs') :: go bs' r
           | Base.Err -> ["err"] | Base.Panic -> ["panic"] | Base.OutOfFuel -> ["fuel"]) in
      join "#" "_" (go (ebands_of_string bands) (zlist_of_string layers))
    | _ -> "?");
  (* t2_hdr_dec bands presets steps -> per step (joined '#'):
       ok:bytesRead,present|incls(;)|states   or err / panic / fuel (then the run stops)
     steps = "layer,termAll,hex#layer,termAll,hex#..." ; reply "preset-failed" when a preset
     tree could not be advanced (reader ran out of data) *)
  reg "t2_hdr_dec" (fun a -> match a with
    | [bands; presets; steps] ->
      (try
        let bl = split '|' bands in
        let pl = split '|' presets in
        let bs0 = L.mapi (fun i b -> dband_of_string b (nth_or pl i "-")) bl in
        let rec go bs ss = match ss with
          | [] -> []
          | s :: r ->
            (match String.split_on_char ',' s with
             | [layer; ta; hx] ->
               (match T2Header.parse_header (bytes_of_hex hx) (zi layer) bs (b01 ta) with
                | Base.Ok (((pos, present), incs), bs') ->
                  Printf.sprintf "ok:%d,%s|%s|%s" (iz pos) (s01 present)
                    (join ";" "_" (L.map dincl_str incs)) (dstates_str bs') :: go bs' r
                | Base.Err -> ["err"] | Base.Panic -> ["panic"] | Base.OutOfFuel -> ["fuel"])
             | _ -> failwith "step") in
        join "#" "_" (go bs0 (split '#' steps))
      with Preset_failed -> "preset-failed")
    | _ -> "?");
  (* ---------------- packets ---------------- *)
  (* t2_pk_enc order nl nr nc bounds sampling prec cells
       cells = "c,r,p=bands@c,r,p=bands@..."
     -> ok:items|hex   items = "l,r,c,p,hdrLen,bodyLen;..." , hex = all headers and bodies
        / err / panic / fuel *)
  reg "t2_pk_enc" (fun a -> match a with
    | [order; nl; nr; nc; bounds; sampling; prec; cells] ->
      let g = pgeom_of bounds sampling prec in
      let cl = L.map (fun s -> match String.index_opt s '=' with
          | Some i ->
            (match zlist_of_string (String.sub s 0 i) with
             | [c; r; p] -> (((c, r), p), ebands_of_string (String.sub s (i + 1) (String.length s - i - 1)))
             | _ -> failwith "cell key")
          | None -> failwith "cell") (split '@' cells) in
      cls (T2Packets.enc_packets (zi order) (zi nl) (zi nr) (zi nc) g cl)
        (fun (ps, _) ->
           Printf.sprintf "%s|%s"
             (join ";" "_" (L.map (fun p -> Printf.sprintf "%s,%d,%d" (item_str p.T2Packets.ep_item)
                                      (L.length p.T2Packets.ep_header) (L.length p.T2Packets.ep_body)) ps))
             (hex_of_bytes (T2Packets.packets_bytes ps)))
    | _ -> "?");
  (* t2_pk_dec hex order nl nr nc bounds sampling prec dpidx dgeo style strict resilient corder
       dpidx  = "c,r:idx,idx,...;..."                 precinctIndicesForResolution
       dgeo   = "c,r,p,b:w,h:positions;..."           cbPrecinctDims / cbPrecinctPositions
       corder = "c,r,p:idx,idx,...;..."               precinct order used by gatherCBData
     -> ok:packets@gather / err / panic / fuel
       packets (joined '#') = "l,r,c,p,present,partial|incls|bodyhex",
          incls (joined ';') = "inc,first,np,len,zbp,termall:passLens:corrupted"
       gather = per component 0..nc-1 (joined '/'): entries (joined ';', sorted by res, idx)
          "res,idx:datahex:passes,zbp,zbpset,termall:pl(nil|ints)" *)
  reg "t2_pk_dec" (fun a -> match a with
    | [hx; order; nl; nr; nc; bounds; sampling; prec; dpidx; dgeo; style; strict; resilient; corder] ->
      let g = pgeom_of bounds sampling prec in
      let pidx_tab = L.map (fun s -> match String.split_on_char ':' s with
          | [k; v] -> (match L.map iz (zlist_of_string k) with
              | [c; r] -> ((c, r), zlist_of_string v) | _ -> failwith "dpidx key")
          | _ -> failwith "dpidx") (split ';' dpidx) in
      let pidx c r = match L.assoc_opt (iz c, iz r) pidx_tab with Some l -> l | None -> [] in
      let geo = L.map (fun s -> match String.split_on_char ':' s with
          | [k; wh; pos] ->
            (match zlist_of_string k, zlist_of_string wh with
             | [c; r; p; b], [w; h] -> ((((c, r), p), b), ((w, h), pairs (zlist_of_string pos)))
             | _ -> failwith "dgeo key")
          | _ -> failwith "dgeo") (split ';' dgeo) in
      let ord_tab = L.map (fun s -> match String.split_on_char ':' s with
          | [k; v] -> (match L.map iz (zlist_of_string k) with
              | [c; r; p] -> ((c, r, p), zlist_of_string v) | _ -> failwith "corder key")
          | _ -> failwith "corder") (split ';' corder) in
      let ncz = int_of_string nc in
      cls (T2Packets.dec_packets (bytes_of_hex hx) (zi order) (zi nl) (zi nr) (zi nc) g pidx geo
             (zi style) (b01 strict) (b01 resilient))
        (fun ps ->
           let pk = L.map (fun p ->
             Printf.sprintf "%s,%s,%s|%s|%s" (item_str p.T2Packets.dp_item) (s01 p.T2Packets.dp_present)
               (s01 p.T2Packets.dp_partial)
               (join ";" "_" (L.map (fun ((i, _), corr) -> dincl_str i ^ ":" ^ s01 corr) p.T2Packets.dp_incls))
               (hex_of_bytes p.T2Packets.dp_body)) ps in
           let gat = L.init (max ncz 0) (fun c ->
             let order r p = L.assoc_opt (c, iz r, iz p) ord_tab in
             let m = T2Packets.gather (z_of_int c) order [] ps in
             let m = L.sort (fun ((r1, i1), _) ((r2, i2), _) -> compare (iz r1, iz i1) (iz r2, iz i2)) m in
             join ";" "_" (L.map (fun ((r, i), ci) ->
               Printf.sprintf "%d,%d:%s:%d,%d,%s,%s:%s" (iz r) (iz i) (hex_of_bytes ci.T2Packets.ci_data)
                 (iz ci.T2Packets.ci_passes) (iz ci.T2Packets.ci_zbp) (s01 ci.T2Packets.ci_zbpset)
                 (s01 ci.T2Packets.ci_termall)
                 (match ci.T2Packets.ci_pl with None -> "nil" | Some l -> string_of_zlist l)) m)) in
           Printf.sprintf "%s@%s" (join "#" "_" pk) (join "/" "_" gat))
    | _ -> "?");
  ()

let () = registrars := register :: !registrars
