(* JPEG 2000 building blocks: RCT, DWT, ... *)
open BinNums
open Conv

let triple_list_to_string (l : ((coq_Z * coq_Z) * coq_Z) list) : string =
  String.concat ";" (L.map (fun ((a, b), c) ->
    Printf.sprintf "%d,%d,%d" (int_of_z a) (int_of_z b) (int_of_z c)) l)

let register (reg : string -> (string list -> string) -> unit) : unit =
  reg "rct_fwd" (fun a -> match a with
    | [r; g; b] -> triple_list_to_string (RCT.rct_fwd_list (zlist_of_string r) (zlist_of_string g) (zlist_of_string b))
    | _ -> "?");
  reg "rct_inv" (fun a -> match a with
    | [y; cb; cr] ->
      let ys = zlist_of_string y and cbs = zlist_of_string cb and crs = zlist_of_string cr in
      let rec zip3 a b c = match a, b, c with
        | x :: a', y :: b', z :: c' -> ((x, y), z) :: zip3 a' b' c' | _ -> [] in
      triple_list_to_string (RCT.rct_inv_list (zip3 ys cbs crs))
    | _ -> "?");
  ()

let () = registrars := register :: !registrars
