(* The composed reversible single-tile HTJ2K path (area pipeht; property C06): coq/PipeHT/PhtModel.v.
   Parameters of every op: w h nc P signed(0/1) levels cbw cbh mct(0/1) order, then the payload
   (the same prefix as ops_pipe.ml).
   Encodings: bytes hex ("_" empty), outcomes ok:<payload> / err / panic / fuel. *)
open BinNums
open Conv

let zi s = z_of_int (int_of_string s)
let iz = int_of_z
let b01 = bool_of_string01

let pp w h nc p sg lv cbw cbh mct ord : PipeModel.pparams =
  { PipeModel.pp_w = zi w; pp_h = zi h; pp_nc = zi nc; pp_prec = zi p; pp_signed = b01 sg;
    pp_levels = zi lv; pp_cbw = zi cbw; pp_cbh = zi cbh; pp_mct = b01 mct; pp_order = zi ord;
    pp_x0 = zi "0"; pp_y0 = zi "0"; pp_iw = zi w }

let outcome (f : 'a -> string) (o : 'a Base.outcome) : string =
  match o with
  | Base.Ok x -> "ok:" ^ f x
  | Base.Err -> "err" | Base.Panic -> "panic" | Base.OutOfFuel -> "fuel"

(* res,pidx,band,cbx,cby,zbp,npt:hexdata *)
let block_str ((((res, pidx), band), b) : ((coq_Z * coq_Z) * coq_Z) * T2Header.eblock) : string =
  Printf.sprintf "%d,%d,%d,%d,%d,%d,%d:%s" (iz res) (iz pidx) (iz band)
    (iz b.T2Header.eb_cbx) (iz b.T2Header.eb_cby) (iz b.T2Header.eb_zbp)
    (iz b.T2Header.eb_npt) (hex_of_bytes b.T2Header.eb_data)

let rec omap_planes (q : PipeModel.pparams) (planes : coq_Z list list)
  : (((coq_Z * coq_Z) * coq_Z) * T2Header.eblock) list list Base.outcome =
  match planes with
  | [] -> Base.Ok []
  | d :: r ->
    (match PhtModel.pht_blocks_of q d with
     | Base.Ok bl ->
       (match omap_planes q r with
        | Base.Ok bls -> Base.Ok (bl :: bls)
        | Base.Err -> Base.Err | Base.Panic -> Base.Panic | Base.OutOfFuel -> Base.OutOfFuel)
     | Base.Err -> Base.Err | Base.Panic -> Base.Panic | Base.OutOfFuel -> Base.OutOfFuel)

let register (reg : string -> (string list -> string) -> unit) : unit =
  (* pht_encode <params> hexpixels -> ok:hex(tile packet bytes = concatenated tile-part bodies) *)
  reg "pht_encode" (fun a -> match a with
    | [w; h; nc; p; sg; lv; cbw; cbh; mct; ord; pix] ->
      outcome hex_of_bytes (PhtModel.pht_encode_tile (pp w h nc p sg lv cbw cbh mct ord) (bytes_of_hex pix))
    | _ -> "?");
  (* pht_decode <params> hextile -> ok:hex(pixel bytes, GetPixelData) *)
  reg "pht_decode" (fun a -> match a with
    | [w; h; nc; p; sg; lv; cbw; cbh; mct; ord; tile] ->
      outcome hex_of_bytes (PhtModel.pht_decode_tile (pp w h nc p sg lv cbw cbh mct ord) (bytes_of_hex tile))
    | _ -> "?");
  (* pht_roundtrip <params> hexpixels -> ok:hex : decode (encode pixels) inside the model *)
  reg "pht_roundtrip" (fun a -> match a with
    | [w; h; nc; p; sg; lv; cbw; cbh; mct; ord; pix] ->
      let q = pp w h nc p sg lv cbw cbh mct ord in
      outcome hex_of_bytes
        (Base.obind (PhtModel.pht_encode_tile q (bytes_of_hex pix)) (fun t -> PhtModel.pht_decode_tile q t))
    | _ -> "?");
  (* pht_blocks <params> hexpixels -> ok: comp|comp|.. ; comp = blk;blk;.. ; blk = res,pidx,band,cbx,cby,zbp,npt:hexdata
     (PipeModel.pipe_coeffs, then PhtModel.pht_blocks_of on every coefficient plane; a component
     without blocks is "-") *)
  reg "pht_blocks" (fun a -> match a with
    | [w; h; nc; p; sg; lv; cbw; cbh; mct; ord; pix] ->
      let q = pp w h nc p sg lv cbw cbh mct ord in
      outcome (fun comps ->
          String.concat "|" (L.map (fun bl -> if bl = [] then "-" else String.concat ";" (L.map block_str bl)) comps))
        (Base.obind (PipeModel.pipe_coeffs q (bytes_of_hex pix)) (fun co -> omap_planes q co))
    | _ -> "?");
  (* pht_hyps <params> hexpixels hextile -> ok:k,z,s,t (0/1 each): the executable forms of the named
     hypotheses of the pipe-HT theorems on this image and these tile bytes (PhtHyps.pht_hyps):
     kmax_fit, no_zero_block, ht_block_sizes, t2_delivers *)
  reg "pht_hyps" (fun a -> match a with
    | [w; h; nc; p; sg; lv; cbw; cbh; mct; ord; pix; tile] ->
      let b x = if x then "1" else "0" in
      outcome (fun (((k, z), s), t) -> String.concat "," [b k; b z; b s; b t])
        (PhtHyps.pht_hyps (pp w h nc p sg lv cbw cbh mct ord) (bytes_of_hex pix) (bytes_of_hex tile))
    | _ -> "?");
  ()

let () = registrars := register :: !registrars
