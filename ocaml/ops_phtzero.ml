(* ops of PipeHT/PhtProofsZeroDef.v: the HTJ2K tile encoder WITH the HTJ2K packet-header coder (all-zero code-blocks included) *)
open BinNums
open Conv

let zi s = z_of_int (int_of_string s)
let b01 = bool_of_string01

let pp w h nc p sg lv cbw cbh mct ord : PipeModel.pparams =
  { PipeModel.pp_w = zi w; pp_h = zi h; pp_nc = zi nc; pp_prec = zi p; pp_signed = b01 sg;
    pp_levels = zi lv; pp_cbw = zi cbw; pp_cbh = zi cbh; pp_mct = b01 mct; pp_order = zi ord;
    pp_x0 = zi "0"; pp_y0 = zi "0"; pp_iw = zi w }

let outcome (f : 'a -> string) (o : 'a Base.outcome) : string =
  match o with
  | Base.Ok x -> "ok:" ^ f x
  | Base.Err -> "err" | Base.Panic -> "panic" | Base.OutOfFuel -> "fuel"

let register (reg : string -> (string list -> string) -> unit) : unit =
  (* phtz_encode <params> hexpixels -> ok:hex(tile packet bytes): compare with the concatenated
     tile-part bodies of jpeg2000.Encoder (HTJ2KMode) on ANY image (pht_encode only on images
     without all-zero code-block) *)
  reg "phtz_encode" (fun a -> match a with
    | [w; h; nc; p; sg; lv; cbw; cbh; mct; ord; pix] ->
      outcome hex_of_bytes (PhtProofsZeroDef.pht_encode_tile_z (pp w h nc p sg lv cbw cbh mct ord) (bytes_of_hex pix))
    | _ -> "?");
  (* phtz_roundtrip <params> hexpixels -> ok:hex : decode (encode_z pixels) inside the model *)
  reg "phtz_roundtrip" (fun a -> match a with
    | [w; h; nc; p; sg; lv; cbw; cbh; mct; ord; pix] ->
      outcome hex_of_bytes (PhtProofsZeroDef.pht_roundtrip_z (pp w h nc p sg lv cbw cbh mct ord) (bytes_of_hex pix))
    | _ -> "?")

let () = registrars := register :: !registrars
