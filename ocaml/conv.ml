(* Hand-written glue: conversions between OCaml ints/strings and the extracted Coq numbers. *)
open BinNums
open Datatypes
module L = Stdlib.List

(* each ops_*.ml appends its registration function here at module initialisation *)
let registrars : ((string -> (string list -> string) -> unit) -> unit) list ref = ref []

let rec pos_of_int (n : int) : positive =
  if n <= 1 then Coq_xH
  else if n land 1 = 0 then Coq_xO (pos_of_int (n lsr 1))
  else Coq_xI (pos_of_int (n lsr 1))

let z_of_int (n : int) : coq_Z =
  if n = 0 then Z0 else if n > 0 then Zpos (pos_of_int n) else Zneg (pos_of_int (- n))

let rec int_of_pos (p : positive) : int =
  match p with Coq_xH -> 1 | Coq_xO q -> 2 * int_of_pos q | Coq_xI q -> 2 * int_of_pos q + 1

let int_of_z (x : coq_Z) : int =
  match x with Z0 -> 0 | Zpos p -> int_of_pos p | Zneg p -> - (int_of_pos p)

let rec nat_of_int (n : int) : nat = if n <= 0 then O else S (nat_of_int (n - 1))
let rec int_of_nat (n : nat) : int = match n with O -> 0 | S k -> 1 + int_of_nat k

let n_of_int (k : int) : coq_N = if k = 0 then N0 else Npos (pos_of_int k)
let int_of_n (x : coq_N) : int = match x with N0 -> 0 | Npos p -> int_of_pos p

(* "1,2,-3" <-> coq_Z list ; "" or "-" = empty *)
let zlist_of_string (s : string) : coq_Z list =
  if s = "" || s = "_" then []
  else L.map (fun t -> z_of_int (int_of_string t)) (String.split_on_char ',' s)

let string_of_zlist (l : coq_Z list) : string =
  if l = [] then "_" else
  let b = Buffer.create 256 in
  L.iteri (fun i x -> if i > 0 then Buffer.add_char b ','; Buffer.add_string b (string_of_int (int_of_z x))) l;
  Buffer.contents b

(* hex <-> byte list (as coq_Z list) ; "_" = empty *)
let hexval c = match c with
  | '0'..'9' -> Char.code c - 48 | 'a'..'f' -> Char.code c - 87 | 'A'..'F' -> Char.code c - 55
  | _ -> failwith "hex"

(* table of the 256 byte values as z, to avoid re-building them *)
let ztab = Array.init 256 z_of_int

let bytes_of_hex (s : string) : coq_Z list =
  if s = "_" then [] else begin
    let n = String.length s / 2 in
    let r = ref [] in
    for i = n - 1 downto 0 do
      r := ztab.(hexval s.[2*i] * 16 + hexval s.[2*i+1]) :: !r
    done; !r end

let hex_of_bytes (l : coq_Z list) : string =
  if l = [] then "_" else
  let b = Buffer.create 1024 in
  L.iter (fun x -> Buffer.add_string b (Printf.sprintf "%02x" ((int_of_z x) land 255))) l;
  Buffer.contents b

let bool_of_string01 s = (s = "1")
let string01_of_bool b = if b then "1" else "0"
