(* Hand-written glue: conversions between OCaml ints/strings and the extracted Coq numbers. *)
open Model

let rec pos_of_int (n : int) : positive =
  if n <= 1 then XH
  else if n land 1 = 0 then XO (pos_of_int (n lsr 1))
  else XI (pos_of_int (n lsr 1))

let z_of_int (n : int) : z =
  if n = 0 then Z0 else if n > 0 then Zpos (pos_of_int n) else Zneg (pos_of_int (- n))

let rec int_of_pos (p : positive) : int =
  match p with XH -> 1 | XO q -> 2 * int_of_pos q | XI q -> 2 * int_of_pos q + 1

let int_of_z (x : z) : int =
  match x with Z0 -> 0 | Zpos p -> int_of_pos p | Zneg p -> - (int_of_pos p)

let rec nat_of_int (n : int) : nat = if n <= 0 then O else S (nat_of_int (n - 1))
let rec int_of_nat (n : nat) : int = match n with O -> 0 | S k -> 1 + int_of_nat k

let n_of_int (n : int) : n = if n = 0 then N0 else Npos (pos_of_int n)
let int_of_n (x : n) : int = match x with N0 -> 0 | Npos p -> int_of_pos p

(* "1,2,-3" <-> z list ; "" or "-" = empty *)
let zlist_of_string (s : string) : z list =
  if s = "" || s = "_" then []
  else List.map (fun t -> z_of_int (int_of_string t)) (String.split_on_char ',' s)

let string_of_zlist (l : z list) : string =
  if l = [] then "_" else
  let b = Buffer.create 256 in
  List.iteri (fun i x -> if i > 0 then Buffer.add_char b ','; Buffer.add_string b (string_of_int (int_of_z x))) l;
  Buffer.contents b

(* hex <-> byte list (as z list) ; "_" = empty *)
let hexval c = match c with
  | '0'..'9' -> Char.code c - 48 | 'a'..'f' -> Char.code c - 87 | 'A'..'F' -> Char.code c - 55
  | _ -> failwith "hex"

(* table of the 256 byte values as z, to avoid re-building them *)
let ztab = Array.init 256 z_of_int

let bytes_of_hex (s : string) : z list =
  if s = "_" then [] else begin
    let n = String.length s / 2 in
    let r = ref [] in
    for i = n - 1 downto 0 do
      r := ztab.(hexval s.[2*i] * 16 + hexval s.[2*i+1]) :: !r
    done; !r end

let hex_of_bytes (l : z list) : string =
  if l = [] then "_" else
  let b = Buffer.create 1024 in
  List.iter (fun x -> Buffer.add_string b (Printf.sprintf "%02x" ((int_of_z x) land 255))) l;
  Buffer.contents b

let bool_of_string01 s = (s = "1")
let string01_of_bool b = if b then "1" else "0"
