(* C13 (second half): the general stream generator of the independent T.81 Annex H encoder
   (JllT81Gen.t81_gen): arbitrary header layout, table destinations and component identifiers.

   t81_gen <w> <h> <P> <pred> <cids> <tds> <items> <hexpixels>   -> ok:<hexstream> | err
        cids   comma separated component identifiers (distinct bytes); their number is Nf = Ns
        tds    comma separated Td per component, each 0..3
        items  what stands between SOI and SOS, separated by '/':
                 S                          the SOF3 frame header (exactly once)
                 E<code>:<hexpayload>       APPn (224..239) or COM (254) segment, payload "_" = empty
                 D<tab>;<tab>;...           one DHT segment with one or several tables
               <tab> = <Tc>:<Th>:<kind>, kind one of
                 std      K.3.1 luminance DC table extended to categories 0..16
                 alt      JllT81Gen.t81g_alt_bits/vals (all 17 categories, other lengths)
                 opt      optimal table (model of BuildOptimalHuffmanTable) for the category counts of
                          the components whose Td is <Th>
                 x<hex>   explicit: 16 BITS bytes followed by the HUFFVAL bytes
   t81_gen_hv <hv> <w> <h> <P> <pred> <cids> <tds> <items> <hexpixels>   -> ok:<hexstream> | err
        the same with the sampling byte H1|V1 = <hv> (decimal, H1, V1 in 1..4) in the frame header
        of a single-component frame (t81_gen = t81_gen_hv 17; ignored for several components)
        err: the generator returned None (invalid parameters/items, no or several SOF3, a selected
        destination without table, or a category without code) or the spec did not parse.
*)
open BinNums
open Conv

let rec take n l = if n <= 0 then [] else match l with [] -> [] | x :: r -> x :: take (n - 1) r
let rec drop n l = if n <= 0 then l else match l with [] -> [] | _ :: r -> drop (n - 1) r

exception Bad

let parse_items (spec : string) (freqs_for : int -> coq_Z list) : JllT81Gen.t81g_item list =
  let item (e : string) : JllT81Gen.t81g_item =
    if e = "S" then JllT81Gen.GSof
    else if String.length e >= 2 && e.[0] = 'E' then begin
      match String.split_on_char ':' (String.sub e 1 (String.length e - 1)) with
      | [code; payload] -> JllT81Gen.GExtra (z_of_int (int_of_string code), bytes_of_hex payload)
      | _ -> raise Bad end
    else if String.length e >= 2 && e.[0] = 'D' then begin
      let tabs = String.split_on_char ';' (String.sub e 1 (String.length e - 1)) in
      JllT81Gen.GDht (L.map (fun t ->
        match String.split_on_char ':' t with
        | [tc; th; kind] ->
          let id = int_of_string th in
          let bv =
            if kind = "std" then (JllT81.t81_std_bits, JllT81.t81_std_vals)
            else if kind = "alt" then (JllT81Gen.t81g_alt_bits, JllT81Gen.t81g_alt_vals)
            else if kind = "opt" then begin
              match JllHuff.build_optimal (freqs_for id) with
              | Base.Ok (b, v) -> (b, v)
              | _ -> raise Bad end
            else if String.length kind > 1 && kind.[0] = 'x' then begin
              let bytes = bytes_of_hex (String.sub kind 1 (String.length kind - 1)) in
              (take 16 bytes, drop 16 bytes) end
            else raise Bad in
          ((z_of_int (int_of_string tc), z_of_int id), bv)
        | _ -> raise Bad) tabs) end
    else raise Bad in
  L.map item (String.split_on_char '/' spec)

let gen (hv : string) (a : string list) : string =
  match a with
  | [w; h; p; pred; cids; tds; items; px] ->
    (try
      let zw = z_of_int (int_of_string w) and zh = z_of_int (int_of_string h)
      and zp = z_of_int (int_of_string p) and zpred = z_of_int (int_of_string pred) in
      let cl = zlist_of_string cids and tdl = zlist_of_string tds in
      let pixels = bytes_of_hex px in
      let zc = z_of_int (L.length cl) in
      let freqs_for id = JllT81.t81_table_freqs zw zh zc zp zpred tdl (z_of_int id) pixels in
      let its = parse_items items freqs_for in
      (match JllT81Gen.t81_gen_hv (z_of_int (int_of_string hv)) zpred cl tdl its zw zh zp pixels with
       | Some s -> "ok:" ^ hex_of_bytes s
       | None -> "err")
    with _ -> "err")
  | _ -> "?"

let register (reg : string -> (string list -> string) -> unit) : unit =
  (* JllT81Gen.t81_gen = t81_gen_hv 17 *)
  reg "t81_gen" (gen "17");
  reg "t81_gen_hv" (fun a -> match a with hv :: r -> gen hv r | [] -> "?");
  ()

let () = registrars := register :: !registrars
