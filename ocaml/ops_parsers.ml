(* Parsers area (C08/C09): header-parser models.
   prs_<name> <hex>  ->  ok:<fields>|err|panic|fuel  followed by " a=<max allocation request>"
   The models are the code as it stands in /repo (after the fixes of findings F36-F47).
   prs_declared <hex> -> declared S (first frame header of any kind / SIZ), saturated at 2^61. *)
open BinNums
open Conv

let fuel_of (bs : coq_Z list) = PrsOutcome.fuel_of bs

let zmax (l : coq_Z list) : int = L.fold_left (fun m x -> max m (int_of_z x)) 0 l

let show (fields : 'a -> string) (r : ('a Base.outcome * coq_Z list)) : string =
  let (o, al) = r in
  let cls = match o with
    | Base.Ok a -> "ok:" ^ fields a
    | Base.Err -> "err"
    | Base.Panic -> "panic"
    | Base.OutOfFuel -> "fuel" in
  Printf.sprintf "%s a=%d" cls (zmax al)

let i = int_of_z

let jls_fields ((((w, h), c), b), n) = Printf.sprintf "%d,%d,%d,%d,%d" (i w) (i h) (i c) (i b) (i n)
let j_fields (((w, h), c), p) = Printf.sprintf "%d,%d,%d,%d" (i w) (i h) (i c) (i p)
let k_fields ((s : PrsJ2k.ksiz), _) =
  Printf.sprintf "%d,%d,%d,%d,%d,%d,%d,%d,%d" (i s.PrsJ2k.s_x) (i s.PrsJ2k.s_y) (i s.PrsJ2k.s_xo) (i s.PrsJ2k.s_yo)
    (i s.PrsJ2k.s_xt) (i s.PrsJ2k.s_yt) (i s.PrsJ2k.s_xto) (i s.PrsJ2k.s_yto) (i s.PrsJ2k.s_c)

let register (reg : string -> (string list -> string) -> unit) : unit =
  let op name (f : coq_Z list -> string) =
    reg name (fun a -> match a with [hx] -> f (bytes_of_hex hx) | _ -> "?") in
  op "prs_jlsl" (fun bs -> show jls_fields (PrsJls.jlsl_decode (fuel_of bs) bs));
  op "prs_jlsn" (fun bs -> show jls_fields (PrsJls.jlsn_decode (fuel_of bs) bs));
  op "prs_jll" (fun bs -> show j_fields (PrsJpeg.jll_decode (fuel_of bs) bs));
  op "prs_sv1" (fun bs -> show j_fields (PrsJpeg.sv1_decode (fuel_of bs) bs));
  op "prs_bl" (fun bs -> show j_fields (PrsBaseline.bl_decode (fuel_of bs) bs));
  op "prs_j2k" (fun bs -> show k_fields (PrsJ2k.k_main_header (fuel_of bs) bs));
  reg "prs_rle" (fun a -> match a with
    | [w; h; ba; spp; hx] ->
      let z x = z_of_int (int_of_string x) in
      show (fun () -> "") (PrsRle.rle_frame_prefix (z w) (z h) (z ba) (z spp) (bytes_of_hex hx))
    | _ -> "?");
  (* declared S of the first frame header, saturated at 2^61 like the Go walker *)
  reg "prs_declared" (fun a -> match a with
    | [hx] ->
      let s = PrsOutcome.declared_S (bytes_of_hex hx) in
      let lim = BinInt.Z.pow (z_of_int 2) (z_of_int 61) in
      let s' = if BinInt.Z.ltb lim s then lim else s in
      (* print as decimal via OCaml ints is unsafe above 2^62: cap first *)
      string_of_int (int_of_z s')
    | _ -> "?");
  ()

let () = registrars := register :: !registrars
