(* RLE Lossless (property C01; rle_decode_fi also serves C08) *)
open BinNums
open Conv

let outcome_hex (o : coq_Z list Base.outcome) : string =
  match o with
  | Base.Ok l -> "ok:" ^ hex_of_bytes l
  | Base.Err -> "err"
  | Base.Panic -> "panic"
  | Base.OutOfFuel -> "fuel"

let geom ba spp planar npix : RleModel.geom =
  { RleModel.g_ba = z_of_int (int_of_string ba); g_spp = z_of_int (int_of_string spp);
    g_planar = (planar <> "0"); g_npix = z_of_int (int_of_string npix) }

let frameinfo rows cols bits spp planar : RleModel.frameinfo =
  (* Width = Columns, Height = Rows; only the product is used *)
  { RleModel.fi_width = z_of_int (int_of_string cols); fi_height = z_of_int (int_of_string rows);
    fi_bits = z_of_int (int_of_string bits); fi_spp = z_of_int (int_of_string spp);
    fi_planarconf = z_of_int (int_of_string planar) }

let register (reg : string -> (string list -> string) -> unit) : unit =
  (* rle_encode <ba> <spp> <planar01> <npix> <hexframe> -> ok:<hex> | err | panic | fuel *)
  reg "rle_encode" (fun a -> match a with
    | [ba; spp; pl; npix; fr] -> outcome_hex (RleModel.rle_encode (geom ba spp pl npix) (bytes_of_hex fr))
    | _ -> "?");
  (* rle_decode <ba> <spp> <planar01> <npix> <hexstream> -> ok:<hex> | err | panic | fuel *)
  reg "rle_decode" (fun a -> match a with
    | [ba; spp; pl; npix; s] -> outcome_hex (RleModel.rle_decode (geom ba spp pl npix) (bytes_of_hex s))
    | _ -> "?");
  (* rle_segment <hexplane> -> <hex> : Encode every byte then Flush, no padding *)
  reg "rle_segment" (fun a -> match a with
    | [p] -> hex_of_bytes (RleModel.encode_segment (bytes_of_hex p))
    | _ -> "?");
  (* rle_packbits <hexsegment> -> ok:<hex> | none   (strict Annex G reader, whole input) *)
  reg "rle_packbits" (fun a -> match a with
    | [s] -> (match RleSpec.packbits (bytes_of_hex s) with Some l -> "ok:" ^ hex_of_bytes l | None -> "none")
    | _ -> "?");
  (* rle_packbits_n <n> <hexsegment> -> ok:<hex> | none  (Annex G reader: stop after n output bytes) *)
  reg "rle_packbits_n" (fun a -> match a with
    | [n; s] -> (match RleSpec.packbits_n (z_of_int (int_of_string n)) (bytes_of_hex s) with
                 | Some l -> "ok:" ^ hex_of_bytes l | None -> "none")
    | _ -> "?");
  (* rle_valid <planes> <hexstream> -> 1 | 0 *)
  reg "rle_valid" (fun a -> match a with
    | [p; s] -> string01_of_bool (RleSpec.annexG_valid (z_of_int (int_of_string p)) (bytes_of_hex s))
    | _ -> "?");
  (* rle_segments <planes> <hexstream> -> hex;hex;... (each segment with its padding) *)
  reg "rle_segments" (fun a -> match a with
    | [p; s] -> String.concat ";" (L.map hex_of_bytes (RleSpec.segments (z_of_int (int_of_string p)) (bytes_of_hex s)))
    | _ -> "?");
  (* rle_decode_fi <rows> <cols> <bitsAllocated> <spp> <planar> <hexstream> : arbitrary FrameInfo *)
  reg "rle_decode_fi" (fun a -> match a with
    | [r; c; bits; spp; pl; s] -> outcome_hex (RleModel.rle_decode_frame (frameinfo r c bits spp pl) (bytes_of_hex s))
    | _ -> "?");
  (* rle_encode_fi <rows> <cols> <bitsAllocated> <spp> <planar> <hexframe> : encodeFrame, arbitrary FrameInfo *)
  reg "rle_encode_fi" (fun a -> match a with
    | [r; c; bits; spp; pl; s] -> outcome_hex (RleModel.rle_encode_frame (frameinfo r c bits spp pl) (bytes_of_hex s))
    | _ -> "?");
  (* rle_alloc_fi ... -> none | <bytes requested by make([]byte, frameSize)> *)
  reg "rle_alloc_fi" (fun a -> match a with
    | [r; c; bits; spp; pl; s] ->
      (match RleModel.rle_decode_alloc (frameinfo r c bits spp pl) (bytes_of_hex s) with
       | Some n -> string_of_int (int_of_z n) | None -> "none")
    | _ -> "?");
  (* rle_decode_fi_prefix ... -> ok | err | panic : outcome before the first segment is decoded *)
  reg "rle_decode_fi_prefix" (fun a -> match a with
    | [r; c; bits; spp; pl; s] ->
      (match RleModel.rle_decode_frame_prefix (frameinfo r c bits spp pl) (bytes_of_hex s) with
       | Base.Ok _ -> "ok" | Base.Err -> "err" | Base.Panic -> "panic" | Base.OutOfFuel -> "fuel")
    | _ -> "?");
  ()

let () = registrars := register :: !registrars
