(* 5/3 reversible wavelet (jpeg2000/wavelet/dwt53.go): 1-D, 2-D, multilevel.
   ints are comma separated, "_" = empty; replies: ints, or "panic" where the Go code
   indexes out of range, or "na" outside the model's domain (w > stride). *)
open BinNums
open Conv

let register (reg : string -> (string list -> string) -> unit) : unit =
  let one_d f = (fun a -> match a with
    | [e; xs] ->
      let even = bool_of_string01 e and l = zlist_of_string xs in
      if DwtModel.dwt1d_panics even l then "panic" else string_of_zlist (f even l)
    | _ -> "?") in
  reg "dwt_fwd1d" (one_d DwtModel.fwd53);
  reg "dwt_inv1d" (one_d DwtModel.inv53);
  (* many short signals in one request: "<even01> s1;s2;..." -> "F1/I1/A1;F2/I2/A2;..." with
     F = fwd s, I = inv F, A = inv s (each computed by the ops above) *)
  reg "dwt_1d_batch" (fun a -> match a with
    | [e; sigs] ->
      let even = bool_of_string01 e in
      String.concat ";" (L.map (fun xs ->
        let l = zlist_of_string xs in
        if DwtModel.dwt1d_panics even l then "panic" else
        let f = DwtModel.fwd53 even l in
        String.concat "/" [string_of_zlist f; string_of_zlist (DwtModel.inv53 even f);
                           string_of_zlist (DwtModel.inv53 even l)])
        (String.split_on_char ';' sigs))
    | _ -> "?");
  let two_d f = (fun a -> match a with
    | [w; h; stride; er; ec; xs] ->
      let wi = int_of_string w and hi = int_of_string h and si = int_of_string stride in
      let l = zlist_of_string xs in
      if wi < 0 || hi < 0 || si < 0 || wi > si then "na"
      else if not (DwtModel.dwt2d_in_range l (nat_of_int wi) (nat_of_int hi) (nat_of_int si)) then "panic"
      else string_of_zlist (f l (nat_of_int wi) (nat_of_int hi) (nat_of_int si)
                              (bool_of_string01 er) (bool_of_string01 ec))
    | _ -> "?") in
  reg "dwt_fwd2d" (two_d DwtModel.fwd53_2d);
  reg "dwt_inv2d" (two_d DwtModel.inv53_2d);
  let ml f = (fun a -> match a with
    | [w; h; levels; x0; y0; xs] ->
      let wi = int_of_string w and hi = int_of_string h and li = int_of_string levels in
      let l = zlist_of_string xs in
      if wi < 0 || hi < 0 || li < 0 then "na"
      else if li > 0 && not (DwtModel.dwt2d_in_range l (nat_of_int wi) (nat_of_int hi) (nat_of_int wi)) then "panic"
      else string_of_zlist (f l (nat_of_int wi) (nat_of_int hi) (nat_of_int li)
                              (z_of_int (int_of_string x0)) (z_of_int (int_of_string y0)))
    | _ -> "?") in
  reg "dwt_fwd_ml" (ml DwtModel.fwd53_ml);
  reg "dwt_inv_ml" (ml DwtModel.inv53_ml);
  ()

let () = registrars := register :: !registrars
