(* PipeStream area (C16 / C04): the codestreams emitted by the real JPEG 2000 encoder for the
   configurations of the `pipe` suite, read by
     pst_walk  <hex>  the strict Annex A walker FrmJ2k.j2k_wellformed (reason through j2k_walk)
                      -> ok:<fields> | bad:<reason>@<offset>
     pst_parse <hex>  the model of codestream.Parser (PrsJ2k.k_main_header, then k_parse_tile
                      for every SOT until EOC / end of data, as Parser.Parse's tile loop does)
                      -> ok:siz=<9 fields>;hdr=<offset of the first SOT>;tiles=<isot>/<psot>/<hex data>|...
                         | err | panic | fuel
     pst_report <hex> what Decoder.Decode reports (PstSizComps.k_siz_report: Width, Height, Components,
                      BitDepth, IsSigned from the SIZ, first component's Ssiz)
                      -> ok:<w>,<h>,<comps>,<depth>,<signed 0|1> | err | panic | fuel
   Needs ops_framing.ml (reason names) linked before it (alphabetical order in bin/mlbuild). *)
open BinNums
open Conv

let zi = int_of_z
let join sep f l = String.concat sep (L.map f l)
let nonempty s = if s = "" then "_" else s

let walk_reply (h : FrmJ2k.j2k_header) : string =
  let c = h.FrmJ2k.jk_cod in
  let parts = h.FrmJ2k.jk_tileparts in
  Printf.sprintf
    "ok:rsiz=%d;xsiz=%d;ysiz=%d;xosiz=%d;yosiz=%d;xtsiz=%d;ytsiz=%d;xtosiz=%d;ytosiz=%d;csiz=%d;ssiz=%s;sub=%s;ntiles=%d;scod=%d;prog=%d;layers=%d;mct=%d;levels=%d;xcb=%d;ycb=%d;style=%d;transform=%d;precincts=%s;sqcd=%d;parts=%s;tlm=%s;ncom=%d;ncap=%d;nmct=%d;nrgn=%d"
    (zi h.FrmJ2k.jk_rsiz) (zi h.FrmJ2k.jk_xsiz) (zi h.FrmJ2k.jk_ysiz) (zi h.FrmJ2k.jk_xosiz)
    (zi h.FrmJ2k.jk_yosiz) (zi h.FrmJ2k.jk_xtsiz) (zi h.FrmJ2k.jk_ytsiz) (zi h.FrmJ2k.jk_xtosiz)
    (zi h.FrmJ2k.jk_ytosiz) (zi h.FrmJ2k.jk_csiz)
    (nonempty (join "," (fun ((s, _), _) -> string_of_int (zi s)) h.FrmJ2k.jk_comps))
    (nonempty (join "," (fun ((_, xr), yr) -> Printf.sprintf "%d/%d" (zi xr) (zi yr)) h.FrmJ2k.jk_comps))
    (zi h.FrmJ2k.jk_ntiles) (zi c.FrmJ2k.cd_scod) (zi c.FrmJ2k.cd_prog) (zi c.FrmJ2k.cd_layers)
    (zi c.FrmJ2k.cd_mct) (zi c.FrmJ2k.cd_levels) (zi c.FrmJ2k.cd_xcb) (zi c.FrmJ2k.cd_ycb)
    (zi c.FrmJ2k.cd_style) (zi c.FrmJ2k.cd_transform)
    (string_of_zlist c.FrmJ2k.cd_precincts) (zi h.FrmJ2k.jk_sqcd)
    (nonempty (join "," (fun (i, p) -> Printf.sprintf "%d:%d" (zi i) (zi p)) parts))
    (string01_of_bool h.FrmJ2k.jk_tlm) (zi h.FrmJ2k.jk_ncom) (zi h.FrmJ2k.jk_ncap)
    (zi h.FrmJ2k.jk_nmct) (zi h.FrmJ2k.jk_nrgn)

(* outcome of an M computation, allocations dropped *)
type 'a cls = COk of 'a | CBad of string
let cls (r : 'a Base.outcome * coq_Z list) : 'a cls = match fst r with
  | Base.Ok a -> COk a | Base.Err -> CBad "err" | Base.Panic -> CBad "panic" | Base.OutOfFuel -> CBad "fuel"

let parse_reply (bs : coq_Z list) : string =
  let fuel = PrsOutcome.fuel_of bs in
  let n = L.length bs in
  let arr = Array.of_list (L.map zi bs) in
  match cls (PrsJ2k.k_main_header fuel bs) with
  | CBad c -> c
  | COk (s, o0) ->
    let csiz = s.PrsJ2k.s_c in
    (* Parser.Parse: peekMarker; io.EOF -> stop; EOC -> stop; SOT -> parseTile; else error *)
    let rec tiles (o : int) (acc : string list) : string =
      if o + 2 > n then fin acc
      else
        let m = arr.(o) * 256 + arr.(o + 1) in
        if m = 0xFFD9 then fin acc
        else if m <> 0xFF90 then "err"
        else
          let zo = z_of_int o in
          match cls (PrsJ2k.k_parse_tile fuel csiz bs zo) with
          | CBad c -> c
          | COk (isot, o3) ->
            (* start of the tile data = offset after SOD: the same two model functions that
               k_parse_tile composes, run once more for the intermediate offset *)
            (match cls (PrsJ2k.k_parse_sot bs (z_of_int (o + 2))) with
             | CBad c -> c
             | COk ((_, psot), o1) ->
               (match cls (PrsJ2k.k_tile_loop fuel csiz { PrsJ2k.t_coc = []; t_qcc = [] } bs o1) with
                | CBad c -> c
                | COk o2 ->
                  let data = PrsJ2k.k_slice bs o2 (BinInt.Z.sub o3 o2) in
                  let t = Printf.sprintf "%d/%d/%s" (zi isot) (zi psot) (hex_of_bytes data) in
                  let e = zi o3 in
                  if e <= o then "err" (* no progress: cannot happen, SOT is 12 bytes *)
                  else tiles e (t :: acc)))
    and fin acc =
      Printf.sprintf "ok:siz=%d,%d,%d,%d,%d,%d,%d,%d,%d;hdr=%d;tiles=%s"
        (zi s.PrsJ2k.s_x) (zi s.PrsJ2k.s_y) (zi s.PrsJ2k.s_xo) (zi s.PrsJ2k.s_yo)
        (zi s.PrsJ2k.s_xt) (zi s.PrsJ2k.s_yt) (zi s.PrsJ2k.s_xto) (zi s.PrsJ2k.s_yto) (zi s.PrsJ2k.s_c)
        (zi o0) (nonempty (String.concat "|" (L.rev acc)))
    in
    tiles (zi o0) []

let register (reg : string -> (string list -> string) -> unit) : unit =
  reg "pst_walk" (fun a -> match a with
    | [s] ->
      let bs = bytes_of_hex s in
      (match FrmJ2k.j2k_wellformed bs with
       | Some h -> walk_reply h
       | None -> (match FrmJ2k.j2k_walk bs with
                  | FrmBase.WBad (r, o) -> Ops_framing.bad r o
                  | FrmBase.WOk _ -> "bad:wellformed-none-but-walk-ok@0"))
    | _ -> "?");
  reg "pst_parse" (fun a -> match a with
    | [s] -> parse_reply (bytes_of_hex s)
    | _ -> "?");
  reg "pst_report" (fun a -> match a with
    | [s] ->
      (match PstSizComps.k_siz_report (bytes_of_hex s) with
       | Base.Ok ((((w, h), c), d), sg) ->
         Printf.sprintf "ok:%d,%d,%d,%d,%s" (zi w) (zi h) (zi c) (zi d) (string01_of_bool sg)
       | Base.Err -> "err" | Base.Panic -> "panic" | Base.OutOfFuel -> "fuel")
    | _ -> "?");
  ()

let () = registrars := register :: !registrars
