(* HtSafe: panic-explicit model of the HTJ2K cleanup-pass block decoder on arbitrary bytes
   (coq/HtSafe/HtsModel.v). *)
open BinNums
open Conv

let hts_zi s = z_of_int (int_of_string s)

let register (reg : string -> (string list -> string) -> unit) : unit =
  (* hts_decode <w> <h> <kmax> <missingMSBs> <hex> -> ok:<samples> | err | panic | fuel
     (NewHTDecoder + SetCodingContext + Decode) *)
  reg "hts_decode" (fun a -> match a with
    | [w; h; k; m; b] ->
      (match HtsModel.hts_samples (hts_zi w) (hts_zi h) (hts_zi k) (hts_zi m) (bytes_of_hex b) with
       | Base.Ok l -> "ok:" ^ string_of_zlist l
       | Base.Err -> "err" | Base.Panic -> "panic" | Base.OutOfFuel -> "fuel")
    | _ -> "?");
  (* hts_cost <w> <h> <kmax> <missingMSBs> <hex> -> ok:<work>,<bytes> | err | panic | fuel *)
  reg "hts_cost" (fun a -> match a with
    | [w; h; k; m; b] ->
      (match HtsModel.hts_decode (hts_zi w) (hts_zi h) (hts_zi k) (hts_zi m) (bytes_of_hex b) with
       | Base.Ok ((_, wk), mem) -> "ok:" ^ string_of_int (int_of_z wk) ^ "," ^ string_of_int (int_of_z mem)
       | Base.Err -> "err" | Base.Panic -> "panic" | Base.OutOfFuel -> "fuel")
    | _ -> "?")

let () = registrars := register :: !registrars
