(* JPEG 2000 irreversible quantisation (property C12): QCD step fields, quantiser integers, clamp *)
open BinNums
open Conv

let zi s = z_of_int (int_of_string s)
let iz = int_of_z

let qmake (n : int) (d : int) : QArith_base.coq_Q =
  { QArith_base.coq_Qnum = z_of_int n; QArith_base.coq_Qden = pos_of_int d }

let register (reg : string -> (string list -> string) -> unit) : unit =
  (* q97_enc <fixed,fixed,...> <numbps> -> expn,mant,encoded;... (one triple per fixed value) *)
  reg "q97_enc" (fun a -> match a with
    | [f; n] ->
      String.concat ";" (L.map (fun fx ->
        let (e, m) = Q97Model.q97_encode_fields fx (zi n) in
        Printf.sprintf "%d,%d,%d" (iz e) (iz m) (iz (Q97Model.q97_pack e m))) (zlist_of_string f))
    | _ -> "?");
  (* q97_qcd <guard> <style> <enc,enc,...> -> hex of Sqcd,SPqcd (big-endian 16-bit) *)
  reg "q97_qcd" (fun a -> match a with
    | [g; s; encs] -> hex_of_bytes (Q97Model.q97_sqcd (zi g) (zi s) :: Q97Model.q97_spqcd (zlist_of_string encs))
    | _ -> "?");
  (* q97_dec <hi> <lo> <rb> -> expn,mant,m,e,exact : decoded step = m * 2^e, read back from q97_step_u48
     (units 2^-48) by an exact shift; exact=1 says nothing was lost *)
  reg "q97_dec" (fun a -> match a with
    | [h; l; rb] -> let (e, m) = Q97Model.q97_unpack (Q97Model.q97_join (zi h) (zi l)) in
      let s = Q97Model.q97_step_u48 e m (zi rb) in
      let ex = int_of_string rb - iz e - 11 in
      let sh = z_of_int (ex + 48) in
      let mm = BinInt.Z.shiftr s sh in
      let exact = (BinInt.Z.eqb (BinInt.Z.shiftl mm sh) s) in
      Printf.sprintf "%d,%d,%d,%d,%s" (iz e) (iz m) (iz mm) ex (string01_of_bool exact)
    | _ -> "?");
  (* q97_trunc6 <v> -> index *)
  reg "q97_trunc6" (fun a -> match a with
    | [v] -> string_of_int (iz (Q97Model.q97_trunc6 (zi v)))
    | _ -> "?");
  (* q97_quant <xn> <xd> <dn> <dd> -> math index, coded index *)
  reg "q97_quant" (fun a -> match a with
    | [xn; xd; dn; dd] ->
      let x = qmake (int_of_string xn) (int_of_string xd) and d = qmake (int_of_string dn) (int_of_string dd) in
      Printf.sprintf "%d,%d" (iz (Q97Model.dz_quant x d)) (iz (Q97Model.dz_quant_code x d))
    | _ -> "?");
  (* q97_clamp <signed01> <bitDepth> <val> -> clamped,stored *)
  reg "q97_clamp" (fun a -> match a with
    | [s; b; v] -> Printf.sprintf "%d,%d" (iz (Q97Model.q97_clamp (s = "1") (zi b) (zi v))) (iz (Q97Model.q97_store (s = "1") (zi b) (zi v)))
    | _ -> "?");
  ()

let () = registrars := register :: !registrars
