(* HTJ2K components (property C06): MEL, U-VLC, CxtVLC, level clamp / QCD exponents / Kmax, Scup *)
open BinNums
open Conv

let zi s = z_of_int (int_of_string s)
let iz = int_of_z
let bools_of_string (s : string) : bool list =
  if s = "_" then [] else L.init (String.length s) (fun i -> s.[i] = '1')
let string_of_bools (l : bool list) : string =
  if l = [] then "_" else String.concat "" (L.map (fun b -> if b then "1" else "0") l)
let ints (l : int list) = if l = [] then "_" else String.concat "," (L.map string_of_int l)

(* tables are computed once *)
let vlc_lookup0 = lazy (string_of_zlist HtVlc.vlc_lookup0)
let vlc_lookup1 = lazy (string_of_zlist HtVlc.vlc_lookup1)
let ojph_enc0 = lazy (Array.of_list (L.map iz HtVlc.ojph_enc0))
let ojph_enc1 = lazy (Array.of_list (L.map iz HtVlc.ojph_enc1))

let register (reg : string -> (string list -> string) -> unit) : unit =
  (* ---- MEL ---- *)
  (* ht_mel_enc <events 01..|_> -> hex : MELEncoder EncodeBit* ; Flush *)
  reg "ht_mel_enc" (fun a -> match a with
    | [e] -> hex_of_bytes (HtMel.mel_encode_bytes (bools_of_string e))
    | _ -> "?");
  (* ht_mel_state <events> -> hex;tmp;rem;run;k;thr : writer state before termination *)
  reg "ht_mel_state" (fun a -> match a with
    | [e] -> let s = HtMel.melw_encode_all (bools_of_string e) in
      Printf.sprintf "%s;%d;%d;%d;%d;%d" (hex_of_bytes (L.rev s.HtMel.mw_buf)) (iz s.HtMel.mw_tmp)
        (iz s.HtMel.mw_rem) (iz s.HtMel.mw_run) (iz s.HtMel.mw_k) (iz s.HtMel.mw_thr)
    | _ -> "?");
  (* ht_mel_dec <n> <hex> -> ok:<events> | err : n calls of MELDecoder.DecodeBit *)
  reg "ht_mel_dec" (fun a -> match a with
    | [n; h] -> (match HtMel.mel_decode_bytes (nat_of_int (int_of_string n)) (bytes_of_hex h) with
                 | Some l -> "ok:" ^ string_of_bools l | None -> "err")
    | _ -> "?");
  (* ht_ojph_mel_term <events> <vlc_tmp> <vlc_used> <vlc_more01> -> hex;<extra|-> *)
  reg "ht_ojph_mel_term" (fun a -> match a with
    | [e; t; u; m] ->
      let (mel, extra) = HtMel.ojph_mel_terminate (HtMel.melw_encode_all (bools_of_string e)) (zi t) (zi u) (m = "1") in
      hex_of_bytes mel ^ ";" ^ (match extra with Some b -> string_of_int (iz b) | None -> "-")
    | _ -> "?");
  (* ht_ojph_mel_dec <n> <hex> -> events : ojphMELReader through the applyZeroRun consumer *)
  reg "ht_ojph_mel_dec" (fun a -> match a with
    | [n; h] -> string_of_bools (HtMel.ojph_mel_decode_bytes (nat_of_int (int_of_string n)) (bytes_of_hex h))
    | _ -> "?");
  (* ---- U-VLC ---- *)
  (* ht_uvlc_tables -> tbl0;tbl1;bias *)
  reg "ht_uvlc_tables" (fun _ ->
    string_of_zlist HtUvlc.uvlc_tbl0 ^ ";" ^ string_of_zlist HtUvlc.uvlc_tbl1 ^ ";" ^ string_of_zlist HtUvlc.uvlc_bias);
  (* ht_uvlc_enc <u> -> pfx,sfx,ext,lp,ls,le;<bits 01..> *)
  reg "ht_uvlc_enc" (fun a -> match a with
    | [u] ->
      let (((((p, s), x), lp), ls), le) = HtUvlc.uvlc_encode (zi u) in
      Printf.sprintf "%d,%d,%d,%d,%d,%d;%s" (iz p) (iz s) (iz x) (iz lp) (iz ls) (iz le)
        (string_of_bools (L.map (fun b -> iz b = 1) (HtUvlc.uvlc_stream (zi u))))
    | _ -> "?");
  (* ht_uvlc_dec <bits 01..> -> ok:<u>,<bits left> | err *)
  reg "ht_uvlc_dec" (fun a -> match a with
    | [b] ->
      let bits = L.map (fun x -> if x then z_of_int 1 else z_of_int 0) (bools_of_string b) in
      (match HtUvlc.uvlc_decode_residual bits with
       | Base.Ok (u, r) -> Printf.sprintf "ok:%d,%d" (iz u) (L.length r)
       | Base.Err -> "err" | Base.Panic -> "panic" | Base.OutOfFuel -> "fuel")
    | _ -> "?");
  (* ht_ojph_uvlc <initial01> <u0> <u1> -> value,len,mode;d0,d1,consumed  (live pair coder, decoded with ones after) *)
  reg "ht_ojph_uvlc" (fun a -> match a with
    | [i; u0; u1] ->
      let initial = (i = "1") in
      let calls = if initial then HtUvlc.ojph_uvlc_initial_calls (zi u0) (zi u1)
                  else HtUvlc.ojph_uvlc_noninitial_calls (zi u0) (zi u1) in
      let (v, n) = HtUvlc.pack_calls calls in
      let mode = HtUvlc.ojph_uvlc_mode initial (zi u0) (zi u1) in
      let stream = z_of_int (iz v + (0x3F lsl (iz n))) in
      let ((d0, d1), c) = HtUvlc.ojph_uvlc_decode initial mode stream in
      Printf.sprintf "%d,%d,%d;%d,%d,%d" (iz v) (iz n) (iz mode) (iz d0) (iz d1) (iz c)
    | _ -> "?");
  (* ---- CxtVLC ---- *)
  (* ht_vlc_lookup <first01> -> 1024 ints (VLCLookupTable0/1) *)
  reg "ht_vlc_lookup" (fun a -> match a with
    | [f] -> Lazy.force (if f = "1" then vlc_lookup0 else vlc_lookup1)
    | _ -> "?");
  (* ht_ojph_tuple <first01> <cq> <rho> <eps> -> tuple (ojphEncodeTuple) *)
  reg "ht_ojph_tuple" (fun a -> match a with
    | [f; cq; rho; eps] ->
      let cq = int_of_string cq and rho = int_of_string rho and eps = int_of_string eps in
      if rho = 0 && cq = 0 then "0"
      else string_of_int (Lazy.force (if f = "1" then ojph_enc0 else ojph_enc1)).((cq lsl 8) lor (rho lsl 4) lor eps)
    | _ -> "?");
  (* ht_vlc_emb <first01> <cq> <rho> <uoff> <emb> -> len,ek;<flush bytes hex> | none  (EncodeQuadVLCByEMB then Flush) *)
  reg "ht_vlc_emb" (fun a -> match a with
    | [f; cq; rho; uoff; emb] ->
      (match HtVlc.vlc_encode_by_emb (f = "1") (zi cq) (zi rho) (zi uoff) (zi emb) with
       | Some ((cwd, len), ek) ->
         let s = HtVlc.vlcw_emit (nat_of_int (iz len)) HtVlc.vlcw_init cwd in
         Printf.sprintf "%d,%d;%s" (iz len) (iz ek) (hex_of_bytes (HtVlc.vlcw_flush s))
       | None -> "none")
    | _ -> "?");
  (* ht_vlc_cxt <first01> <cq> <rho> <uoff> <ek> <e1> -> len;<flush bytes hex> | none  (EncodeCxtVLCWithLen then Flush) *)
  reg "ht_vlc_cxt" (fun a -> match a with
    | [f; cq; rho; uoff; ek; e1] ->
      (match HtVlc.vlc_encode_cxt (f = "1") (zi cq) (zi rho) (zi uoff) (zi ek) (zi e1) with
       | Some (cwd, len) ->
         let s = HtVlc.vlcw_emit (nat_of_int (iz len)) HtVlc.vlcw_init cwd in
         Printf.sprintf "%d;%s" (iz len) (hex_of_bytes (HtVlc.vlcw_flush s))
       | None -> "none")
    | _ -> "?");
  (* ht_vlc_emit <cwd,len;cwd,len;...> -> flush bytes hex : a sequence of emitVLCBits calls then Flush *)
  reg "ht_vlc_emit" (fun a -> match a with
    | [cs] ->
      let calls = if cs = "_" then [] else L.map (fun t -> match String.split_on_char ',' t with
          | [c; n] -> (int_of_string c, int_of_string n) | _ -> failwith "call") (String.split_on_char ';' cs) in
      let s = L.fold_left (fun s (c, n) -> HtVlc.vlcw_emit (nat_of_int n) s (z_of_int c)) HtVlc.vlcw_init calls in
      hex_of_bytes (HtVlc.vlcw_flush s)
    | _ -> "?");
  (* ---- levels / QCD / Kmax / Scup ---- *)
  (* ht_levels <requested> <w> <h> -> maxLevels,clamped *)
  reg "ht_levels" (fun a -> match a with
    | [r; w; h] -> Printf.sprintf "%d,%d" (iz (HtLevels.calc_max_levels (zi w) (zi h))) (iz (HtLevels.clamp_levels (zi r) (zi w) (zi h)))
    | _ -> "?");
  (* ht_resdim <levels> <n> <x0> -> dimension after `levels` splits *)
  reg "ht_resdim" (fun a -> match a with
    | [l; n; x0] -> string_of_int (iz (HtLevels.res_dim (nat_of_int (int_of_string l)) (zi n) (zi x0)))
    | _ -> "?");
  (* ht_qcd <levels> <bitDepth> <rct01> -> hex of Sqcd,SPqcd... ; kmax per band *)
  reg "ht_qcd" (fun a -> match a with
    | [l; p; r] ->
      let rct = (r = "1") in
      let bytes = HtLevels.qcd_rev_bytes (zi l) (zi p) rct in
      let expn = HtLevels.rev_expn (zi l) (zi p) rct in
      hex_of_bytes bytes ^ ";" ^ ints (L.map (fun e -> iz e + iz HtLevels.ht_guard_bits - 1) expn)
    | _ -> "?");
  (* ht_steps <levels> <bitDepth> <rct01> -> EncodedSteps (CalculateOpenJPHQuantizationParams lossless) *)
  reg "ht_steps" (fun a -> match a with
    | [l; p; r] -> string_of_zlist (HtLevels.rev_encoded_steps (zi l) (zi p) (r = "1"))
    | _ -> "?");
  (* ht_scup_parse <hex block> -> ok:<magsgn len>,<scup> | err | panic *)
  reg "ht_scup_parse" (fun a -> match a with
    | [h] -> (match HtLevels.scup_parse (bytes_of_hex h) with
              | Base.Ok (m, c) -> Printf.sprintf "ok:%d,%d" (L.length m) (L.length c)
              | Base.Err -> "err" | Base.Panic -> "panic" | Base.OutOfFuel -> "fuel")
    | _ -> "?");
  (* ht_scup_write <hex block> <scup> -> hex *)
  reg "ht_scup_write" (fun a -> match a with
    | [h; s] -> hex_of_bytes (HtLevels.scup_write (bytes_of_hex h) (zi s))
    | _ -> "?");
  (* ht_sample <kmax> <v> -> packed,unpacked *)
  reg "ht_sample" (fun a -> match a with
    | [k; v] -> let w = HtLevels.ht_sample_pack (zi k) (zi v) in
      Printf.sprintf "%d,%d" (iz w) (iz (HtLevels.ht_sample_unpack (zi k) w))
    | _ -> "?");
  (* ---- whole HT code-block (cleanup pass) ---- *)
  (* ht_block_encode <w> <h> <kmax> <samples> -> ok:<hex> | err  (HTEncoder.SetKMax + Encode) *)
  reg "ht_block_encode" (fun a -> match a with
    | [w; h; k; d] ->
      (match HtBlockEnc.ht_block_encode (zi w) (zi h) (zi k) (zlist_of_string d) with
       | Base.Ok l -> "ok:" ^ hex_of_bytes l
       | Base.Err -> "err" | Base.Panic -> "panic" | Base.OutOfFuel -> "fuel")
    | _ -> "?");
  (* ht_block_decode <w> <h> <kmax> <missingMSBs> <hex> -> ok:<samples> | err  (HTDecoder.SetCodingContext + Decode) *)
  reg "ht_block_decode" (fun a -> match a with
    | [w; h; k; m; b] ->
      (match HtBlockDec.ht_block_decode (zi w) (zi h) (zi k) (zi m) (bytes_of_hex b) with
       | Base.Ok l -> "ok:" ^ string_of_zlist l
       | Base.Err -> "err" | Base.Panic -> "panic" | Base.OutOfFuel -> "fuel")
    | _ -> "?");
  (* ht_block_tail <w> <h> <kmax> <samples> -> meltmp,rem,vlctmp,vlcused,more01,compat01,fuse,lastvlcbyte | zero | err
     the state terminateOJPHMELVLC sees (after the pending-run bit and mel.tmp <<= remainingBits):
     compat = the used bits of the two open bytes do not collide, fuse = mel.tmp | vlc.tmp,
     lastvlcbyte = the VLC byte that follows the fused byte in memory *)
  reg "ht_block_tail" (fun a -> match a with
    | [w; h; k; d] ->
      let w = zi w and h = zi h and k = zi k in
      let data = zlist_of_string d in
      if L.length data <> iz w * iz h || iz k <= 0 || iz k >= 31 then "err"
      else if L.for_all (fun v -> iz (HtBlockEnc.ht_sample_val k v) = 0) data then "zero"
      else begin
        let cb = L.map (HtLevels.ht_sample_pack k) data in
        let p = z_of_int (30 - (iz k - 1)) in
        let nqy = (iz h + 1) / 2 in
        let rows = L.init nqy (fun r -> HtBlockEnc.quad_row cb p w h (z_of_int r)) in
        let st = HtBlockEnc.enc_streams rows in
        let mel = L.fold_left HtMel.melw_encode HtMel.melw_init st.HtBlockEnc.st_mel in
        let vlc = L.fold_left HtBlockBits.vlw_encode HtBlockBits.vlw_init st.HtBlockEnc.st_vlc in
        let mel = if iz mel.HtMel.mw_run > 0 then HtMel.melw_emit mel (z_of_int 1) else mel in
        let rem = iz mel.HtMel.mw_rem in
        let mtmp = (iz mel.HtMel.mw_tmp) lsl rem in
        let mel_mask = (0xFF lsl rem) land 0xFF in
        let vt = iz vlc.HtBlockBits.vw2_tmp and vu = iz vlc.HtBlockBits.vw2_used in
        let vlc_mask = if vu > 0 then 0xFF lsr (8 - vu) else 0 in
        let fuse = mtmp lor vt in
        let compat = (mel_mask lor vlc_mask) <> 0 &&
                     (((fuse lxor mtmp) land mel_mask) lor ((fuse lxor vt) land vlc_mask)) = 0 in
        let more = L.length vlc.HtBlockBits.vw2_buf > 1 in
        let lastvlc = match vlc.HtBlockBits.vw2_buf with b :: _ -> iz b | [] -> 0 in
        Printf.sprintf "%d,%d,%d,%d,%d,%d,%d,%d" (mtmp land 0xFF) rem vt vu (if more then 1 else 0) (if compat then 1 else 0) fuse lastvlc
      end
    | _ -> "?");
  ()

let () = registrars := register :: !registrars
