(* JPEG baseline entropy (Huffman) layer: operations of area jpegent (model JpegEnt.JentModel).

   Encodings: bytes hex ("_" = empty); integer lists "1,2,-3"; lists of lists joined with ";";
   outcome classes ok:<payload> | err | panic | fuel.

   jent_decode <dhts> <comps> <ri> <nmcu> <rest>
        dhts   DHT segment payloads (without marker / length), hex, joined by ";" ("_" = none;
               an empty payload inside a list is written "_")
        comps  "h,v,td,ta;h,v,td,ta;..."  one entry per frame component, in scan order
        ri     restart interval (0 = none)
        nmcu   number of MCUs = mcuRows * mcuCols
        rest   every byte after the SOS header (incl. the trailing FFD9 ...), hex
        -> ok:<blocks> | err | panic | fuel
        blocks = "ci:c0,c1,...,c63" in NATURAL order, in scan order, joined by ";" ("_" = none)
        model: JentModel.ent_decode then blocks_natural
   jent_enc_grey <tables> <blocks>      -> hex of JentModel.enc_grey_scan
        tables "dcbits/dcvals/acbits/acvals" (each an int list) per table index, joined by ";"
        blocks natural-order 64-entry blocks "c0,...,c63" joined by ";" ("_" = none)
   jent_enc_rgb <tables> <Yblocks> <Cbblocks> <Crblocks>   -> hex of JentModel.enc_rgb_scan
   jent_enc_grey_rst <tables> <ri> <blocks>             -> hex of JentRst.enc_grey_scan_rst (ri >= 1)
   jent_enc_rgb_rst <tables> <ri> <Yblocks> <Cbblocks> <Crblocks> -> hex of JentRst.enc_rgb_scan_rst
        the T.81 SPEC encoder with restart intervals of ri MCUs separated by FF D0+m; same
        encodings as jent_enc_grey / jent_enc_rgb
   jent_coefs_rgb <w> <h> <quality> <rgb hex>  -> "Yblocks|Cbblocks|Crblocks"
        the quantised blocks of the three planes exactly as DctPipeline.pipeline8 computes them
        (ycc_planes, stride = div_ceil w 8 * 8, enc_plane with the scaled luma / chroma table)
   jent_decode_px <dhts> <comps> <ri> <nmcu> <rest> <w> <h> <quality> -> ok:<pixels hex> | err | panic | fuel
        ent_decode followed by the decoder half of DctPipeline.pipeline8 (1 or 3 components, 1x1
        sampling, quantisation tables of that quality): the picture baseline.Decode returns
   jent_decode12 <dhts> <nblocks> <rest> -> ok:<blocks> | err | panic | fuel
        model of the entropy part of the 12-bit extended decoder (JentModel.ent_decode12): blocks
        "c0,...,c63" in NATURAL order (from_zigzag), raw coefficient values before dequantisation,
        joined by ";" ("ok:_" if none)
   jent_parse_dht <dhts>  -> ok:<dc0><dc1><dc2><dc3><ac0>..<ac3> (1 = table defined) | err | panic | fuel
   jent_block_words <tables> <td> <ta> <pred> <block natural> -> "v.n,v.n,..." the WriteBits calls
        of encodeBlock for one block (debugging aid)
*)
open BinNums
open Conv

let zi s = z_of_int (int_of_string s)

let split_list (sep : char) (s : string) : string list =
  if s = "" || s = "_" then [] else String.split_on_char sep s

let outcome_to_string (f : 'a -> string) (o : 'a Base.outcome) : string =
  match o with
  | Base.Ok a -> f a
  | Base.Err -> "err"
  | Base.Panic -> "panic"
  | Base.OutOfFuel -> "fuel"

let blocks_of (s : string) : coq_Z list list = L.map zlist_of_string (split_list ';' s)
let string_of_blocks (bl : coq_Z list list) : string =
  if bl = [] then "_" else String.concat ";" (L.map string_of_zlist bl)

let comps_of (s : string) : JentModel.ecomp list =
  L.map (fun e -> match zlist_of_string e with
    | [h; v; td; ta] -> { JentModel.ec_h = h; ec_v = v; ec_td = td; ec_ta = ta }
    | _ -> failwith "comps") (split_list ';' s)

let tables_of (s : string) =
  L.map (fun e -> match String.split_on_char '/' e with
    | [db; dv; ab; av] ->
      (((zlist_of_string db, zlist_of_string dv), zlist_of_string ab), zlist_of_string av)
    | _ -> failwith "tables") (split_list ';' s)

let tagged_to_string (bl : (coq_Z * coq_Z list) list) : string =
  if bl = [] then "ok:_" else
  "ok:" ^ String.concat ";" (L.map (fun (ci, b) ->
    string_of_int (int_of_z ci) ^ ":" ^ string_of_zlist b) bl)

let register (reg : string -> (string list -> string) -> unit) : unit =
  reg "jent_decode" (fun a -> match a with
    | [dhts; comps; ri; nmcu; rest] ->
      let payloads = L.map bytes_of_hex (split_list ';' dhts) in
      outcome_to_string (fun bl -> tagged_to_string (JentModel.blocks_natural bl))
        (JentModel.ent_decode payloads (comps_of comps) (zi ri)
           (nat_of_int (int_of_string nmcu)) (bytes_of_hex rest))
    | _ -> "?");
  reg "jent_enc_grey" (fun a -> match a with
    | [tables; blocks] ->
      hex_of_bytes (JentModel.enc_grey_scan (tables_of tables) (blocks_of blocks))
    | _ -> "?");
  reg "jent_enc_rgb" (fun a -> match a with
    | [tables; y; cb; cr] ->
      hex_of_bytes (JentModel.enc_rgb_scan (tables_of tables) (blocks_of y) (blocks_of cb) (blocks_of cr))
    | _ -> "?");
  reg "jent_enc_grey_rst" (fun a -> match a with
    | [tables; ri; blocks] ->
      hex_of_bytes (JentRst.enc_grey_scan_rst (tables_of tables) (zi ri) (blocks_of blocks))
    | _ -> "?");
  reg "jent_enc_rgb_rst" (fun a -> match a with
    | [tables; ri; y; cb; cr] ->
      hex_of_bytes (JentRst.enc_rgb_scan_rst (tables_of tables) (zi ri) (blocks_of y) (blocks_of cb) (blocks_of cr))
    | _ -> "?");
  reg "jent_coefs_rgb" (fun a -> match a with
    | [w; h; q; px] ->
      let w = zi w and h = zi h and q = zi q in
      let eight = z_of_int 8 in
      let bw = DctGeometry.div_ceil w eight and bh = DctGeometry.div_ceil h eight in
      let ql = DctQuant.scale_quant_table JpegTables_gen.jpeg_qt_luma q in
      let qc = DctQuant.scale_quant_table JpegTables_gen.jpeg_qt_chroma q in
      let ((py, pcb), pcr) = DctPipeline.ycc_planes (bytes_of_hex px) w h in
      let stride = BinInt.Z.mul bw eight in
      string_of_blocks (DctPipeline.enc_plane py stride bw bh ql) ^ "|" ^
      string_of_blocks (DctPipeline.enc_plane pcb stride bw bh qc) ^ "|" ^
      string_of_blocks (DctPipeline.enc_plane pcr stride bw bh qc)
    | _ -> "?");
  (* jent_decode_px <dhts> <comps> <ri> <nmcu> <rest> <w> <h> <quality> -> ok:<pixels hex> | err | panic | fuel
     ent_decode, then the decoder half of DctPipeline.pipeline8 on the decoded blocks (dec_plane with
     the luma / chroma table of that quality, plane_at, ycc_to_rgb): the pixels baseline.Decode
     returns for a 1- or 3-component stream with 1x1 sampling and the encoder's DQT segments *)
  reg "jent_decode_px" (fun a -> match a with
    | [dhts; comps; ri; nmcu; rest; w; h; q] ->
      let payloads = L.map bytes_of_hex (split_list ';' dhts) in
      let cs = comps_of comps in
      outcome_to_string (fun bl ->
          let bl = JentModel.blocks_natural bl in
          let plane ci = L.filter_map (fun (c, b) -> if int_of_z c = ci then Some b else None) bl in
          let w = zi w and h = zi h and q = zi q in
          let bw = DctGeometry.div_ceil w (z_of_int 8) in
          let ql = DctQuant.scale_quant_table JpegTables_gen.jpeg_qt_luma q in
          let qc = DctQuant.scale_quant_table JpegTables_gen.jpeg_qt_chroma q in
          let dp ci = DctPipeline.dec_plane (plane ci) (if ci = 0 then ql else qc) in
          let out = ref [] in
          (if L.length cs = 1 then begin
             let d = dp 0 in
             for y = 0 to int_of_z h - 1 do for x = 0 to int_of_z w - 1 do
               out := DctPipeline.plane_at d bw (z_of_int x) (z_of_int y) :: !out
             done done end
           else begin
             let dy = dp 0 and dcb = dp 1 and dcr = dp 2 in
             for y = 0 to int_of_z h - 1 do for x = 0 to int_of_z w - 1 do
               let zx = z_of_int x and zy = z_of_int y in
               let ((r, g), b) = DctColor.ycc_to_rgb (DctPipeline.plane_at dy bw zx zy)
                   (DctPipeline.plane_at dcb bw zx zy) (DctPipeline.plane_at dcr bw zx zy) in
               out := b :: g :: r :: !out
             done done end);
          "ok:" ^ hex_of_bytes (L.rev !out))
        (JentModel.ent_decode payloads cs (zi ri) (nat_of_int (int_of_string nmcu)) (bytes_of_hex rest))
    | _ -> "?");
  reg "jent_decode12" (fun a -> match a with
    | [dhts; nblocks; rest] ->
      let payloads = L.map bytes_of_hex (split_list ';' dhts) in
      outcome_to_string (fun bl -> "ok:" ^ string_of_blocks (L.map DctZigzag.from_zigzag bl))
        (JentModel.ent_decode12 payloads (nat_of_int (int_of_string nblocks)) (bytes_of_hex rest))
    | _ -> "?");
  reg "jent_parse_dht" (fun a -> match a with
    | [dhts] ->
      let payloads = L.map bytes_of_hex (split_list ';' dhts) in
      outcome_to_string (fun (dc, ac) ->
          "ok:" ^ String.concat "" (L.map (fun t -> match t with Some _ -> "1" | None -> "0") (dc @ ac)))
        (JentModel.bl_parse_dhts payloads JentModel.no_tables JentModel.no_tables)
    | _ -> "?");
  reg "jent_block_words" (fun a -> match a with
    | [tables; td; ta; pred; block] ->
      let codes = JentModel.codes_of_tables (tables_of tables) in
      let (dcC, _) = L.nth codes (int_of_string td) in
      let (_, acC) = L.nth codes (int_of_string ta) in
      let ws = JentModel.enc_block_words dcC acC (zi pred) (DctZigzag.to_zigzag (zlist_of_string block)) in
      if ws = [] then "_" else
      String.concat "," (L.map (fun (v, n) -> Printf.sprintf "%d.%d" (int_of_z v) (int_of_z n)) ws)
    | _ -> "?");
  ()

let () = registrars := register :: !registrars
