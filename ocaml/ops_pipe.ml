(* The composed reversible single-tile JPEG 2000 path (area pipe; property C04).
   Parameters of every op: w h nc P signed(0/1) levels cbw cbh mct(0/1) order, then the payload.
   Encodings: bytes hex ("_" empty), ints "1,2,-3", outcomes ok:<payload> / err / panic / fuel. *)
open BinNums
open Conv

let zi s = z_of_int (int_of_string s)
let iz = int_of_z
let b01 = bool_of_string01

let pp w h nc p sg lv cbw cbh mct ord : PipeModel.pparams =
  { PipeModel.pp_w = zi w; pp_h = zi h; pp_nc = zi nc; pp_prec = zi p; pp_signed = b01 sg;
    pp_levels = zi lv; pp_cbw = zi cbw; pp_cbh = zi cbh; pp_mct = b01 mct; pp_order = zi ord;
    pp_x0 = zi "0"; pp_y0 = zi "0"; pp_iw = zi w }

let outcome (f : 'a -> string) (o : 'a Base.outcome) : string =
  match o with
  | Base.Ok x -> "ok:" ^ f x
  | Base.Err -> "err" | Base.Panic -> "panic" | Base.OutOfFuel -> "fuel"

let planes_str (l : coq_Z list list) : string =
  if l = [] then "-" else String.concat ";" (L.map string_of_zlist l)

let eblock_str (b : T2Header.eblock) : string =
  Printf.sprintf "%d,%d,%d,%d:%s" (iz b.T2Header.eb_cbx) (iz b.T2Header.eb_cby) (iz b.T2Header.eb_zbp)
    (iz b.T2Header.eb_npt) (hex_of_bytes b.T2Header.eb_data)

let register (reg : string -> (string list -> string) -> unit) : unit =
  (* pipe_encode <params> hexpixels -> ok:hex(tile bytes between SOD and EOC) *)
  reg "pipe_encode" (fun a -> match a with
    | [w; h; nc; p; sg; lv; cbw; cbh; mct; ord; pix] ->
      outcome hex_of_bytes (PipeModel.pipe_encode_tile (pp w h nc p sg lv cbw cbh mct ord) (bytes_of_hex pix))
    | _ -> "?");
  (* pipe_encode_cs <params> hexpixels -> ok:hex(whole codestream SOC..EOC) *)
  reg "pipe_encode_cs" (fun a -> match a with
    | [w; h; nc; p; sg; lv; cbw; cbh; mct; ord; pix] ->
      outcome hex_of_bytes (PipeModel.pipe_encode (pp w h nc p sg lv cbw cbh mct ord) (bytes_of_hex pix))
    | _ -> "?");
  (* pipe_decode <params> hextile -> ok:hex(pixel bytes, GetPixelData) *)
  reg "pipe_decode" (fun a -> match a with
    | [w; h; nc; p; sg; lv; cbw; cbh; mct; ord; tile] ->
      outcome hex_of_bytes (PipeModel.pipe_decode_tile (pp w h nc p sg lv cbw cbh mct ord) (bytes_of_hex tile))
    | _ -> "?");
  (* pipe_roundtrip <params> hexpixels -> ok:hex : decode (encode pixels) inside the model *)
  reg "pipe_roundtrip" (fun a -> match a with
    | [w; h; nc; p; sg; lv; cbw; cbh; mct; ord; pix] ->
      let q = pp w h nc p sg lv cbw cbh mct ord in
      outcome hex_of_bytes
        (Base.obind (PipeModel.pipe_encode_tile q (bytes_of_hex pix)) (fun t -> PipeModel.pipe_decode_tile q t))
    | _ -> "?");
  (* pipe_coeffs <params> hexpixels -> ok:plane;plane;.. : wavelet coefficients per component *)
  reg "pipe_coeffs" (fun a -> match a with
    | [w; h; nc; p; sg; lv; cbw; cbh; mct; ord; pix] ->
      outcome planes_str (PipeModel.pipe_coeffs (pp w h nc p sg lv cbw cbh mct ord) (bytes_of_hex pix))
    | _ -> "?");
  (* pipe_cells <params> hexpixels -> ok: comp,res,pidx|band,w,h|cbx,cby,zbp,npt:hex|.. ; ..
     the packet encoder's precinct store (debugging aid) *)
  reg "pipe_cells" (fun a -> match a with
    | [w; h; nc; p; sg; lv; cbw; cbh; mct; ord; pix] ->
      let q = pp w h nc p sg lv cbw cbh mct ord in
      outcome (fun cells ->
          String.concat ";" (L.concat_map (fun (((c, r), pi), bands) ->
            L.map (fun (bd : T2Header.eband) ->
              Printf.sprintf "%d,%d,%d|%d,%d,%d|%s" (iz c) (iz r) (iz pi) (iz bd.T2Header.ebn_band)
                (iz bd.T2Header.ebn_w) (iz bd.T2Header.ebn_h)
                (String.concat "|" (L.map eblock_str bd.T2Header.ebn_blocks))) bands) cells))
        (Base.obind (PipeModel.pipe_coeffs q (bytes_of_hex pix)) (fun co -> PipeModel.pipe_cells q co))
    | _ -> "?");
  (* pipe_planes <params> hextile -> ok:plane;plane;.. : decoded component planes after the IDWT
     (before inverse RCT / DC shift) *)
  reg "pipe_planes" (fun a -> match a with
    | [w; h; nc; p; sg; lv; cbw; cbh; mct; ord; tile] ->
      outcome planes_str (PipeModel.pipe_dec_planes (pp w h nc p sg lv cbw cbh mct ord) (bytes_of_hex tile))
    | _ -> "?");
  (* ---- quality layers: <params> nl ... ; alloc = rows "1,4,7" joined by ";" per block and "|" per component ---- *)
  let parse_rows (s : string) : coq_Z list list list =
    L.map (fun cs -> L.map zlist_of_string (if cs = "" || cs = "_" then [] else String.split_on_char ';' cs))
      (String.split_on_char '|' s) in
  (* pipe_alloc <params> nl hextile -> ok:rows : cumulative passes per layer of every block, from the packet headers *)
  reg "pipe_alloc" (fun a -> match a with
    | [w; h; nc; p; sg; lv; cbw; cbh; mct; ord; nl; tile] ->
      outcome (fun comps -> String.concat "|" (L.map (fun rows -> if rows = [] then "_" else String.concat ";" (L.map string_of_zlist rows)) comps))
        (PipeModel.pipe_recover_alloc (pp w h nc p sg lv cbw cbh mct ord) (zi nl) (bytes_of_hex tile))
    | _ -> "?");
  (* pipe_encode_l <params> nl alloc hexpixels -> ok:hex(tile bytes) *)
  reg "pipe_encode_l" (fun a -> match a with
    | [w; h; nc; p; sg; lv; cbw; cbh; mct; ord; nl; al; pix] ->
      outcome hex_of_bytes (let q = pp w h nc p sg lv cbw cbh mct ord in PipeModel.pipe_encode_tile_layers q (zi nl) (PipeModel.alloc_of_rows q (parse_rows al)) (bytes_of_hex pix))
    | _ -> "?");
  (* pipe_encode_cs_l <params> nl alloc hexpixels -> ok:hex(whole codestream) *)
  reg "pipe_encode_cs_l" (fun a -> match a with
    | [w; h; nc; p; sg; lv; cbw; cbh; mct; ord; nl; al; pix] ->
      let q = pp w h nc p sg lv cbw cbh mct ord in
      outcome hex_of_bytes (Base.obind (PipeModel.pipe_encode_tile_layers q (zi nl) (PipeModel.alloc_of_rows q (parse_rows al)) (bytes_of_hex pix))
                              (fun t -> Base.Ok (PipeModel.pipe_codestream_layers q (zi nl) t)))
    | _ -> "?");
  (* pipe_decode_l <params> nl hextile -> ok:hex(pixel bytes) *)
  reg "pipe_decode_l" (fun a -> match a with
    | [w; h; nc; p; sg; lv; cbw; cbh; mct; ord; nl; tile] ->
      outcome hex_of_bytes (PipeModel.pipe_decode_tile_layers (pp w h nc p sg lv cbw cbh mct ord) (zi nl) (bytes_of_hex tile))
    | _ -> "?");
  (* ---- tiles: <params> tw th ... ; tiles = hex strings joined by ";" ---- *)
  let tiles_str (l : coq_Z list list) : string =
    if l = [] then "-" else String.concat ";" (L.map hex_of_bytes l) in
  let parse_tiles (s : string) : coq_Z list list =
    if s = "-" then [] else L.map bytes_of_hex (String.split_on_char ';' s) in
  (* pipe_encode_t <params> tw th hexpixels -> ok:hex;hex;.. (packet bytes of every tile) *)
  reg "pipe_encode_t" (fun a -> match a with
    | [w; h; nc; p; sg; lv; cbw; cbh; mct; ord; tw; th; pix] ->
      outcome tiles_str (PipeModel.pipe_encode_tiles (pp w h nc p sg lv cbw cbh mct ord) (zi tw) (zi th) (bytes_of_hex pix))
    | _ -> "?");
  (* pipe_encode_cs_t <params> tw th hexpixels -> ok:hex(whole codestream) *)
  reg "pipe_encode_cs_t" (fun a -> match a with
    | [w; h; nc; p; sg; lv; cbw; cbh; mct; ord; tw; th; pix] ->
      let q = pp w h nc p sg lv cbw cbh mct ord in
      outcome hex_of_bytes (Base.obind (PipeModel.pipe_encode_tiles q (zi tw) (zi th) (bytes_of_hex pix))
                              (fun ts -> Base.Ok (PipeModel.pipe_codestream_tiles q (zi tw) (zi th) ts)))
    | _ -> "?");
  (* pipe_decode_t <params> tw th tiles -> ok:hex(pixel bytes) *)
  reg "pipe_decode_t" (fun a -> match a with
    | [w; h; nc; p; sg; lv; cbw; cbh; mct; ord; tw; th; tiles] ->
      outcome hex_of_bytes (PipeModel.pipe_decode_tiles (pp w h nc p sg lv cbw cbh mct ord) (zi tw) (zi th) (parse_tiles tiles))
    | _ -> "?");
  (* ---- tiles x layers: <params> nl tw th ... ; allocations of the tiles joined by "/" ---- *)
  let tile_q q tw th i = PipeModel.tile_pp q (PipeModel.tile_rect q (zi tw) (zi th) (z_of_int i)) in
  (* pipe_alloc_tl <params> nl tw th tiles -> ok:alloc/alloc/.. (rows of every tile, read off its packet headers) *)
  reg "pipe_alloc_tl" (fun a -> match a with
    | [w; h; nc; p; sg; lv; cbw; cbh; mct; ord; nl; tw; th; tiles] ->
      let q = pp w h nc p sg lv cbw cbh mct ord in
      let ts = parse_tiles tiles in
      let one i t = match PipeModel.pipe_recover_alloc (tile_q q tw th i) (zi nl) t with
        | Base.Ok comps -> Some (String.concat "|" (L.map (fun rows -> if rows = [] then "_" else String.concat ";" (L.map string_of_zlist rows)) comps))
        | _ -> None in
      let rs = L.mapi one ts in
      if L.exists (fun r -> r = None) rs then "err"
      else "ok:" ^ String.concat "/" (L.map (function Some s -> s | None -> "") rs)
    | _ -> "?");
  let talloc q tw th (al : string) =
    let per = Array.of_list (L.map parse_rows (String.split_on_char '/' al)) in
    fun (idx : coq_Z) ->
      let i = iz idx in
      if i < 0 || i >= Array.length per then (fun _ _ -> [])
      else PipeModel.alloc_of_rows (tile_q q tw th i) per.(i) in
  (* pipe_encode_tl <params> nl tw th allocs hexpixels -> ok:hex;hex;.. *)
  reg "pipe_encode_tl" (fun a -> match a with
    | [w; h; nc; p; sg; lv; cbw; cbh; mct; ord; nl; tw; th; al; pix] ->
      let q = pp w h nc p sg lv cbw cbh mct ord in
      outcome tiles_str (PipeModel.pipe_encode_tiles_layers q (zi nl) (talloc q tw th al) (zi tw) (zi th) (bytes_of_hex pix))
    | _ -> "?");
  (* pipe_encode_cs_tl <params> nl tw th allocs hexpixels -> ok:hex(whole codestream) *)
  reg "pipe_encode_cs_tl" (fun a -> match a with
    | [w; h; nc; p; sg; lv; cbw; cbh; mct; ord; nl; tw; th; al; pix] ->
      let q = pp w h nc p sg lv cbw cbh mct ord in
      outcome hex_of_bytes (Base.obind (PipeModel.pipe_encode_tiles_layers q (zi nl) (talloc q tw th al) (zi tw) (zi th) (bytes_of_hex pix))
                              (fun ts -> Base.Ok (PipeModel.pipe_codestream_tiles_layers q (zi nl) (zi tw) (zi th) ts)))
    | _ -> "?");
  (* pipe_decode_tl <params> nl tw th tiles -> ok:hex(pixel bytes) *)
  reg "pipe_decode_tl" (fun a -> match a with
    | [w; h; nc; p; sg; lv; cbw; cbh; mct; ord; nl; tw; th; tiles] ->
      outcome hex_of_bytes (PipeModel.pipe_decode_tiles_layers (pp w h nc p sg lv cbw cbh mct ord) (zi nl) (zi tw) (zi th) (parse_tiles tiles))
    | _ -> "?");
  ()

let () = registrars := register :: !registrars
