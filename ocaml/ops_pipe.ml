(* The composed reversible single-tile JPEG 2000 path (area pipe; property C04).
   Parameters of every op: w h nc P signed(0/1) levels cbw cbh mct(0/1) order, then the payload.
   Encodings: bytes hex ("_" empty), ints "1,2,-3", outcomes ok:<payload> / err / panic / fuel. *)
open BinNums
open Conv

let zi s = z_of_int (int_of_string s)
let iz = int_of_z
let b01 = bool_of_string01

let pp w h nc p sg lv cbw cbh mct ord : PipeModel.pparams =
  { PipeModel.pp_w = zi w; pp_h = zi h; pp_nc = zi nc; pp_prec = zi p; pp_signed = b01 sg;
    pp_levels = zi lv; pp_cbw = zi cbw; pp_cbh = zi cbh; pp_mct = b01 mct; pp_order = zi ord }

let outcome (f : 'a -> string) (o : 'a Base.outcome) : string =
  match o with
  | Base.Ok x -> "ok:" ^ f x
  | Base.Err -> "err" | Base.Panic -> "panic" | Base.OutOfFuel -> "fuel"

let planes_str (l : coq_Z list list) : string =
  if l = [] then "-" else String.concat ";" (L.map string_of_zlist l)

let eblock_str (b : T2Header.eblock) : string =
  Printf.sprintf "%d,%d,%d,%d:%s" (iz b.T2Header.eb_cbx) (iz b.T2Header.eb_cby) (iz b.T2Header.eb_zbp)
    (iz b.T2Header.eb_npt) (hex_of_bytes b.T2Header.eb_data)

let register (reg : string -> (string list -> string) -> unit) : unit =
  (* pipe_encode <params> hexpixels -> ok:hex(tile bytes between SOD and EOC) *)
  reg "pipe_encode" (fun a -> match a with
    | [w; h; nc; p; sg; lv; cbw; cbh; mct; ord; pix] ->
      outcome hex_of_bytes (PipeModel.pipe_encode_tile (pp w h nc p sg lv cbw cbh mct ord) (bytes_of_hex pix))
    | _ -> "?");
  (* pipe_encode_cs <params> hexpixels -> ok:hex(whole codestream SOC..EOC) *)
  reg "pipe_encode_cs" (fun a -> match a with
    | [w; h; nc; p; sg; lv; cbw; cbh; mct; ord; pix] ->
      outcome hex_of_bytes (PipeModel.pipe_encode (pp w h nc p sg lv cbw cbh mct ord) (bytes_of_hex pix))
    | _ -> "?");
  (* pipe_decode <params> hextile -> ok:hex(pixel bytes, GetPixelData) *)
  reg "pipe_decode" (fun a -> match a with
    | [w; h; nc; p; sg; lv; cbw; cbh; mct; ord; tile] ->
      outcome hex_of_bytes (PipeModel.pipe_decode_tile (pp w h nc p sg lv cbw cbh mct ord) (bytes_of_hex tile))
    | _ -> "?");
  (* pipe_roundtrip <params> hexpixels -> ok:hex : decode (encode pixels) inside the model *)
  reg "pipe_roundtrip" (fun a -> match a with
    | [w; h; nc; p; sg; lv; cbw; cbh; mct; ord; pix] ->
      let q = pp w h nc p sg lv cbw cbh mct ord in
      outcome hex_of_bytes
        (Base.obind (PipeModel.pipe_encode_tile q (bytes_of_hex pix)) (fun t -> PipeModel.pipe_decode_tile q t))
    | _ -> "?");
  (* pipe_coeffs <params> hexpixels -> ok:plane;plane;.. : wavelet coefficients per component *)
  reg "pipe_coeffs" (fun a -> match a with
    | [w; h; nc; p; sg; lv; cbw; cbh; mct; ord; pix] ->
      outcome planes_str (PipeModel.pipe_coeffs (pp w h nc p sg lv cbw cbh mct ord) (bytes_of_hex pix))
    | _ -> "?");
  (* pipe_cells <params> hexpixels -> ok: comp,res,pidx|band,w,h|cbx,cby,zbp,npt:hex|.. ; ..
     the packet encoder's precinct store (debugging aid) *)
  reg "pipe_cells" (fun a -> match a with
    | [w; h; nc; p; sg; lv; cbw; cbh; mct; ord; pix] ->
      let q = pp w h nc p sg lv cbw cbh mct ord in
      outcome (fun cells ->
          String.concat ";" (L.concat_map (fun (((c, r), pi), bands) ->
            L.map (fun (bd : T2Header.eband) ->
              Printf.sprintf "%d,%d,%d|%d,%d,%d|%s" (iz c) (iz r) (iz pi) (iz bd.T2Header.ebn_band)
                (iz bd.T2Header.ebn_w) (iz bd.T2Header.ebn_h)
                (String.concat "|" (L.map eblock_str bd.T2Header.ebn_blocks))) bands) cells))
        (Base.obind (PipeModel.pipe_coeffs q (bytes_of_hex pix)) (fun co -> PipeModel.pipe_cells q co))
    | _ -> "?");
  (* pipe_planes <params> hextile -> ok:plane;plane;.. : decoded component planes after the IDWT
     (before inverse RCT / DC shift) *)
  reg "pipe_planes" (fun a -> match a with
    | [w; h; nc; p; sg; lv; cbw; cbh; mct; ord; tile] ->
      outcome planes_str (PipeModel.pipe_dec_planes (pp w h nc p sg lv cbw cbh mct ord) (bytes_of_hex tile))
    | _ -> "?");
  ()

let () = registrars := register :: !registrars
