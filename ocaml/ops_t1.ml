(* EBCOT tier-1 block coder (jpeg2000/t1): symbol-level model, byte layer, ideal-channel run. *)
open BinNums
open Conv

let t1_outcome (f : 'a -> string) (o : 'a Base.outcome) : string =
  match o with
  | Base.Ok x -> "ok:" ^ f x
  | Base.Err -> "err"
  | Base.Panic -> "panic"
  | Base.OutOfFuel -> "fuel"

let zi s = z_of_int (int_of_string s)
let ni s = nat_of_int (int_of_string s)
let b01 s = (s = "1")

let ints (l : int list) : string =
  if l = [] then "_" else String.concat "," (L.map string_of_int l)

let register (reg : string -> (string list -> string) -> unit) : unit =
  (* t1_enc w h orient style fb np data
     -> ok:maxbp|hex|rates|actuals|lens|terms|bitplanes|types   (EncodeLayered) *)
  reg "t1_enc" (fun a -> match a with
    | [w; h; o; st; fb; np; d] ->
      t1_outcome (fun ((maxbp, ps), bytes) ->
          let f g = ints (L.map g ps) in
          Printf.sprintf "%d|%s|%s|%s|%s|%s|%s|%s" (int_of_z maxbp) (hex_of_bytes bytes)
            (f (fun p -> int_of_z p.T1Bytes.p_rate))
            (f (fun p -> int_of_z p.T1Bytes.p_actual))
            (ints (L.map int_of_z (T1Bytes.pass_lens Z0 ps)))
            (f (fun p -> if p.T1Bytes.p_term then 1 else 0))
            (f (fun p -> int_of_z p.T1Bytes.p_bp))
            (f (fun p -> int_of_z p.T1Bytes.p_type)))
        (T1Bytes.enc_layered (ni w) (ni h) (zi o) (zi st) (zi fb) (zi np) (zlist_of_string d))
    | _ -> "?");
  (* t1_enc_plain w h orient style fb np data -> ok:hex   (Encode) *)
  reg "t1_enc_plain" (fun a -> match a with
    | [w; h; o; st; fb; np; d] ->
      t1_outcome hex_of_bytes
        (T1Bytes.enc_plain (ni w) (ni h) (zi o) (zi st) (zi fb) (zi np) (zlist_of_string d))
    | _ -> "?");
  (* t1_dec w h orient style maxbp oj useT lossless hex passlens -> ok:coeffs | err | panic | fuel
     (DecodeLayeredWithMode + GetData) *)
  reg "t1_dec" (fun a -> match a with
    | [w; h; o; st; mb; oj; ut; ll; hx; pl] ->
      t1_outcome string_of_zlist
        (T1Bytes.dec_layered (ni w) (ni h) (zi o) (zi st) (zi mb) (b01 oj) (b01 ut) (b01 ll)
           (bytes_of_hex hx) (zlist_of_string pl))
    | _ -> "?");
  (* t1_dec_bp w h orient style maxbp oj hex np -> DecodeWithBitplane + GetData *)
  reg "t1_dec_bp" (fun a -> match a with
    | [w; h; o; st; mb; oj; hx; np] ->
      t1_outcome string_of_zlist
        (T1Bytes.dec_with_options (ni w) (ni h) (zi o) (zi st) (zi mb) (b01 oj) false (bytes_of_hex hx) (zi np))
    | _ -> "?");
  (* t1_ideal w h orient style fb np oj data -> ok:coeffs : the decoder model run on the symbol
     lists the encoder model emitted (ideal channel); also reports the symbol count *)
  reg "t1_ideal" (fun a -> match a with
    | [w; h; o; st; fb; np; oj; d] ->
      let (maxbp, syms) = T1Model.enc_syms (ni w) (ni h) (zi o) (zi st) (zi fb) (zi np) (zlist_of_string d) in
      let n = L.fold_left (fun acc l -> acc + L.length l) 0 syms in
      (match T1Model.dec_ideal (ni w) (ni h) (zi o) (zi st) maxbp (b01 oj) syms with
       | Base.Ok ((_, dd), (cur, rest)) ->
         Printf.sprintf "ok:%d|%d|%d|%s" (int_of_z maxbp) n (L.length cur + L.length rest)
           (string_of_zlist (T1Model.get_data (ni w) (ni h) dd))
       | Base.Err -> "err" | Base.Panic -> "panic" | Base.OutOfFuel -> "fuel")
    | _ -> "?");
  (* t1_roundtrip w h orient style fb data -> ok:coeffs : model encoder bytes through the model
     decoder with the reported Rate values *)
  reg "t1_roundtrip" (fun a -> match a with
    | [w; h; o; st; fb; d] ->
      t1_outcome string_of_zlist
        (T1Bytes.t1_roundtrip (ni w) (ni h) (zi o) (zi st) (zi fb) (zlist_of_string d))
    | _ -> "?");
  ()

let () = registrars := register :: !registrars
