(* HTJ2K packet-header coder (area t2ht; property C06): coq/T2Ht/T2hModel.v.
   Encodings (no spaces inside an argument):
     bands = band/band/...                          ("_" = no band at all)
     band  = "n"                                    nil *Precinct (model: 0 x 0 band without blocks)
           | "w,h:blk;blk;..."                      NumCodeBlocksX, NumCodeBlocksY : precinct.CodeBlocks in
                                                    stored order ("w,h:_" = no code-blocks)
     blk   = "cbx,cby,zbp,npt,nlb,datalen"          CBX, CBY, ZeroBitPlanes, NumPassesTotal, NumLenBits, len(Data)
   Only len(Data) reaches the header; both sides build Data[i] = (7*i+3) mod 256 (datalen 0 = nil Data).
   LayerData / LayerPasses / PassLengths / Passes are nil, UseTERMALL false, Included false
   (a fresh single-layer block as encodeSingleLayerCodeBlock builds it: hth_mk_block). *)
open BinNums
open Conv

let zi s = z_of_int (int_of_string s)
let iz = int_of_z
let s01 b = if b then "1" else "0"
let join sep empty l = if l = [] then empty else String.concat sep l
let split c s = if s = "" || s = "_" then [] else String.split_on_char c s

let cls (o : 'a Base.outcome) (f : 'a -> string) : string =
  match o with
  | Base.Ok x -> "ok:" ^ f x
  | Base.Err -> "err" | Base.Panic -> "panic" | Base.OutOfFuel -> "fuel"

let gen_data (n : int) : coq_Z list = L.init (max n 0) (fun i -> z_of_int ((7 * i + 3) land 255))

let hblock_of_string (s : string) : T2Header.eblock =
  match L.map int_of_string (String.split_on_char ',' s) with
  | [cbx; cby; zbp; npt; nlb; dl] ->
    T2hModel.hth_mk_block (z_of_int cbx) (z_of_int cby) (z_of_int zbp) (z_of_int npt) (gen_data dl) (z_of_int nlb)
  | _ -> failwith "t2ht blk"

let hband_of_string (s : string) : T2Header.eband =
  if s = "n" then T2hModel.hth_mk_band Z0 Z0 [] else
  match String.split_on_char ':' s with
  | [wh; blks] ->
    (match String.split_on_char ',' wh with
     | [w; h] -> T2hModel.hth_mk_band (zi w) (zi h) (L.map hblock_of_string (split ';' blks))
     | _ -> failwith "t2ht band dims")
  | _ -> failwith "t2ht band"

let hbands_of_string (s : string) : T2Header.eband list = L.map hband_of_string (split '/' s)

(* CodeBlockIncl "included,numPasses,dataLen" joined by ';' *)
let incls_str (l : T2Header.eincl list) : string =
  join ";" "_" (L.map (fun i -> Printf.sprintf "%s,%d,%d" (s01 i.T2Header.ei_included)
                          (iz i.T2Header.ei_np) (iz i.T2Header.ei_len)) l)

(* tree.blocks afterwards: per band (joined '/'; "_" for a band the coder skipped: nil or no code-blocks)
   per grid position in raster order (joined ';') "included,nlb", or "-" where no code-block sits *)
let grid_str (l : T2Header.eblock option list list) : string =
  join "/" "_" (L.map (fun obs -> join ";" "_" (L.map (fun ob -> match ob with
    | None -> "-"
    | Some b -> Printf.sprintf "%s,%d" (s01 b.T2Header.eb_included) (iz b.T2Header.eb_nlb)) obs)) l)

let register (reg : string -> (string list -> string) -> unit) : unit =
  (* t2ht_header bands layer -> ok:hex|incls|grid / err / panic / fuel *)
  reg "t2ht_header" (fun a -> match a with
    | [bands; layer] ->
      cls (T2hModel.hth_header (hbands_of_string bands) (zi layer))
        (fun ((hdr, incs), obss) ->
           Printf.sprintf "%s|%s|%s" (hex_of_bytes hdr) (incls_str incs) (grid_str obss))
    | _ -> "?");
  (* t2ht_bits bands layer -> ok:bit string (the bits handed to writeBit; any non-zero value prints 1) *)
  reg "t2ht_bits" (fun a -> match a with
    | [bands; layer] ->
      cls (T2hModel.hth_header_bits (hbands_of_string bands) (zi layer))
        (fun ((bits, _), _) ->
           if bits = [] then "_" else String.concat "" (L.map (fun x -> if iz x = 0 then "0" else "1") bits))
    | _ -> "?");
  (* t2ht_parse bands resthex -> ok:bytesRead,present|incls / err / panic / fuel
     (parse_header over hth_header bands 0 ++ rest with fresh decoder bands, layer 0, termAll false);
     incls joined ';' : "included,numPasses,dataLen,zeroBitplanes" *)
  reg "t2ht_parse" (fun a -> match a with
    | [bands; rest] ->
      cls (T2hModel.hth_parse (hbands_of_string bands) (bytes_of_hex rest))
        (fun (((pos, present), incs), _) ->
           Printf.sprintf "%d,%s|%s" (iz pos) (s01 present)
             (join ";" "_" (L.map (fun i ->
                Printf.sprintf "%s,%d,%d,%d" (s01 i.T2Header.di_included) (iz i.T2Header.di_np)
                  (iz i.T2Header.di_len) (iz i.T2Header.di_zbp)) incs)))
    | _ -> "?");
  ()

let () = registrars := register :: !registrars
